//! `simrayon`: a single-threaded, tape-driven model of the subset of rayon winterfell uses.
//!
//! Every parallel region (one terminal operation on a parallel iterator, one `scope`, one
//! `find_any`) is executed on the calling thread; the *order* in which its tasks run is chosen by
//! the schedule stream of the decision tape, and `current_num_threads()` returns the simulated
//! worker count of the run. The all-zero tape is the in-order, single-worker schedule.

use std::cell::{Cell, RefCell};

use simcore::{rng::mix, stats, tape};

pub mod prelude {
    pub use crate::{
        IndexedParallelIterator, IntoParallelIterator, IntoParallelRefIterator,
        IntoParallelRefMutIterator, ParallelIterator, ParallelSlice, ParallelSliceMut,
    };
}
pub mod iter {
    pub use crate::{
        IndexedParallelIterator, IntoParallelIterator, IntoParallelRefIterator,
        IntoParallelRefMutIterator, Map, ParIter, ParallelIterator,
    };
}
pub mod slice {
    pub use crate::{ParallelSlice, ParallelSliceMut};
}
pub mod vec {
    pub type IntoIter<T> = crate::ParIter<T>;
}

// SIMULATED POOL
// ================================================================================================

thread_local! {
    static THREADS: Cell<usize> = const { Cell::new(1) };
    static REGION: Cell<u64> = const { Cell::new(0) };
    static DEPTH: Cell<u32> = const { Cell::new(0) };
    static FIND_ANY_WORKER0: Cell<bool> = const { Cell::new(false) };
}

pub mod sim {
    //! control surface for the harness (not part of rayon's API)
    use super::*;

    /// sets the simulated worker count for the current run
    pub fn set_threads(t: usize) {
        FIND_ANY_WORKER0.with(|c| c.set(false));
        THREADS.with(|c| c.set(t.max(1)));
        REGION.with(|c| c.set(0));
        DEPTH.with(|c| c.set(0));
    }
    pub fn regions() -> u64 {
        REGION.with(|c| c.get())
    }
    /// when set, `find_any` lets worker 0 run alone (the first match in range order wins, as in
    /// the serial build); every other scheduling decision stays free
    pub fn set_find_any_worker0(on: bool) {
        FIND_ANY_WORKER0.with(|c| c.set(on));
    }
}

pub fn current_num_threads() -> usize {
    THREADS.with(|c| c.get())
}

fn next_region() -> u64 {
    REGION.with(|c| {
        let r = c.get();
        c.set(r + 1);
        r
    })
}

// SCHEDULING OF ONE REGION
// ================================================================================================

/// Cuts `n` items into contiguous leaf blocks (as rayon's adaptive splitter does: by recursive
/// halving, never below `min_len`, to roughly a small multiple of the worker count), and returns
/// the order in which single items are executed: items inside a block always run in index order
/// (a rayon leaf is a sequential loop); blocks are ordered, and may be interleaved, by the tape.
fn schedule(n: usize, min_len: usize) -> Vec<usize> {
    let region = next_region();
    let t = current_num_threads();
    stats::count("sched.regions", 1);
    stats::count("sched.tasks", n as u64);
    if n <= 1 || t == 1 || DEPTH.with(|d| d.get()) > 0 {
        // one worker (or a region nested inside a task): depth-first, in index order
        return (0..n).collect();
    }
    // leaf size: halve until there are about t * k leaves
    let k = 1 + tape::s("region.split_factor", 4) as usize; // 1..=4
    let target_leaves = (t * k).max(1);
    let mut leaf = n;
    while leaf > min_len.max(1) && n.div_ceil(leaf) < target_leaves {
        leaf = leaf.div_ceil(2);
    }
    let leaf = leaf.max(min_len.max(1)).max(1);
    let mut blocks: Vec<(usize, usize)> = Vec::new();
    let mut s = 0;
    while s < n {
        let e = (s + leaf).min(n);
        blocks.push((s, e));
        s = e;
    }
    let nb = blocks.len();
    if nb > 1 {
        stats::count("sched.regions_multi_task", 1);
    }
    // block order
    let mode = tape::s("region.order", 6);
    let mut order: Vec<usize> = (0..nb).collect();
    match mode {
        0 => {},
        1 => order.reverse(),
        2 => {
            let r = tape::s("region.rotate", nb as u64) as usize;
            order.rotate_left(r);
        },
        3 | 4 => {
            // Fisher-Yates; bounded number of draws for very wide regions
            let draws = nb.min(512);
            for i in 0..draws {
                let j = i + tape::s("region.shuffle", (nb - i) as u64) as usize;
                order.swap(i, j);
            }
        },
        _ => {
            // reversed pairs: each worker took two neighbouring leaves and ran the later first
            for c in order.chunks_mut(2) {
                c.reverse();
            }
        },
    }
    let mut seq: Vec<usize> = Vec::with_capacity(n);
    if mode == 4 && nb > 1 {
        // interleave: `t` workers each own a queue of blocks (in `order`), the tape decides which
        // worker advances next and by how many items
        let w = t.min(nb);
        let mut queues: Vec<Vec<usize>> = vec![Vec::new(); w];
        for (i, b) in order.iter().enumerate() {
            queues[i % w].push(*b);
        }
        // cursor per worker: (index into its queue, next item in the current block)
        let mut cur: Vec<(usize, usize)> = queues
            .iter()
            .map(|q| (0usize, q.first().map(|&b| blocks[b].0).unwrap_or(0)))
            .collect();
        let burst_unit = (n / 128).max(1);
        let mut live: Vec<usize> = (0..w).collect();
        while !live.is_empty() {
            let pick = tape::s("region.worker", live.len() as u64) as usize;
            let wi = live[pick];
            let burst = burst_unit * (1 + tape::s("region.burst", 4) as usize);
            let mut left = burst;
            while left > 0 {
                let (qi, item) = cur[wi];
                if qi >= queues[wi].len() {
                    break;
                }
                let b = queues[wi][qi];
                seq.push(item);
                left -= 1;
                if item + 1 < blocks[b].1 {
                    cur[wi] = (qi, item + 1);
                } else {
                    let nq = qi + 1;
                    let ni = queues[wi].get(nq).map(|&b| blocks[b].0).unwrap_or(0);
                    cur[wi] = (nq, ni);
                }
            }
            if cur[wi].0 >= queues[wi].len() {
                live.remove(pick);
            }
        }
    } else {
        for &b in order.iter() {
            seq.extend(blocks[b].0..blocks[b].1);
        }
    }
    debug_assert_eq!(seq.len(), n);
    // reach measurement: tasks run before a lower-indexed task, and an interleaving signature
    let mut max_seen = 0usize;
    let mut out_of_order = 0u64;
    let mut h = mix(&[region, n as u64, nb as u64, mode]);
    for (pos, &i) in seq.iter().enumerate() {
        if i < max_seen {
            out_of_order += 1;
        }
        max_seen = max_seen.max(i);
        if pos < 64 || pos % 97 == 0 {
            h = mix(&[h, i as u64]);
        }
    }
    stats::count("sched.tasks_out_of_index_order", out_of_order);
    if out_of_order > 0 {
        stats::count("sched.regions_reordered", 1);
    }
    stats::sig(h);
    seq
}

fn enter_task() {
    DEPTH.with(|d| d.set(d.get() + 1));
}
fn leave_task() {
    DEPTH.with(|d| d.set(d.get() - 1));
}

struct TaskGuard;
impl TaskGuard {
    fn new() -> Self {
        enter_task();
        TaskGuard
    }
}
impl Drop for TaskGuard {
    fn drop(&mut self) {
        leave_task();
    }
}

// PARALLEL ITERATORS
// ================================================================================================

/// A materialised indexed parallel iterator.
pub struct ParIter<I> {
    items: Vec<I>,
    min_len: usize,
}

pub struct Map<I, F> {
    base: ParIter<I>,
    f: F,
}

/// marker traits so that `use rayon::prelude::*` keeps working; the methods are inherent
pub trait ParallelIterator {}
pub trait IndexedParallelIterator {}
impl<I> ParallelIterator for ParIter<I> {}
impl ParallelIterator for RangeIter {}
impl<I> IndexedParallelIterator for ParIter<I> {}
impl<I, F> ParallelIterator for Map<I, F> {}
impl<I, F> IndexedParallelIterator for Map<I, F> {}

pub trait IntoParallelIterator {
    type Iter;
    type Item;
    fn into_par_iter(self) -> Self::Iter;
}

impl<I> IntoParallelIterator for ParIter<I> {
    type Item = I;
    type Iter = ParIter<I>;
    fn into_par_iter(self) -> ParIter<I> {
        self
    }
}
impl<T> IntoParallelIterator for Vec<T> {
    type Item = T;
    type Iter = ParIter<T>;
    fn into_par_iter(self) -> ParIter<T> {
        ParIter { items: self, min_len: 1 }
    }
}
impl<'a, T> IntoParallelIterator for &'a [T] {
    type Item = &'a T;
    type Iter = ParIter<&'a T>;
    fn into_par_iter(self) -> ParIter<&'a T> {
        ParIter { items: self.iter().collect(), min_len: 1 }
    }
}
impl<'a, T> IntoParallelIterator for &'a Vec<T> {
    type Item = &'a T;
    type Iter = ParIter<&'a T>;
    fn into_par_iter(self) -> ParIter<&'a T> {
        ParIter { items: self.iter().collect(), min_len: 1 }
    }
}
impl<'a, T, const N: usize> IntoParallelIterator for &'a [T; N] {
    type Item = &'a T;
    type Iter = ParIter<&'a T>;
    fn into_par_iter(self) -> ParIter<&'a T> {
        ParIter { items: self.iter().collect(), min_len: 1 }
    }
}
impl<'a, T> IntoParallelIterator for &'a mut [T] {
    type Item = &'a mut T;
    type Iter = ParIter<&'a mut T>;
    fn into_par_iter(self) -> ParIter<&'a mut T> {
        ParIter { items: self.iter_mut().collect(), min_len: 1 }
    }
}
impl<'a, T> IntoParallelIterator for &'a mut Vec<T> {
    type Item = &'a mut T;
    type Iter = ParIter<&'a mut T>;
    fn into_par_iter(self) -> ParIter<&'a mut T> {
        ParIter { items: self.iter_mut().collect(), min_len: 1 }
    }
}
impl IntoParallelIterator for std::ops::Range<usize> {
    type Item = usize;
    type Iter = ParIter<usize>;
    fn into_par_iter(self) -> ParIter<usize> {
        ParIter { items: self.collect(), min_len: 1 }
    }
}

pub trait IntoParallelRefIterator<'a> {
    type Item: 'a;
    fn par_iter(&'a self) -> ParIter<Self::Item>;
}
impl<'a, T: 'a> IntoParallelRefIterator<'a> for [T] {
    type Item = &'a T;
    fn par_iter(&'a self) -> ParIter<&'a T> {
        ParIter { items: self.iter().collect(), min_len: 1 }
    }
}
impl<'a, T: 'a> IntoParallelRefIterator<'a> for Vec<T> {
    type Item = &'a T;
    fn par_iter(&'a self) -> ParIter<&'a T> {
        ParIter { items: self.iter().collect(), min_len: 1 }
    }
}

pub trait IntoParallelRefMutIterator<'a> {
    type Item: 'a;
    fn par_iter_mut(&'a mut self) -> ParIter<Self::Item>;
}
impl<'a, T: 'a> IntoParallelRefMutIterator<'a> for [T] {
    type Item = &'a mut T;
    fn par_iter_mut(&'a mut self) -> ParIter<&'a mut T> {
        ParIter { items: self.iter_mut().collect(), min_len: 1 }
    }
}
impl<'a, T: 'a> IntoParallelRefMutIterator<'a> for Vec<T> {
    type Item = &'a mut T;
    fn par_iter_mut(&'a mut self) -> ParIter<&'a mut T> {
        ParIter { items: self.iter_mut().collect(), min_len: 1 }
    }
}

pub trait ParallelSlice<T> {
    fn par_chunks(&self, chunk_size: usize) -> ParIter<&[T]>;
}
impl<T> ParallelSlice<T> for [T] {
    fn par_chunks(&self, chunk_size: usize) -> ParIter<&[T]> {
        assert!(chunk_size != 0, "chunk_size must not be zero");
        ParIter { items: self.chunks(chunk_size).collect(), min_len: 1 }
    }
}
pub trait ParallelSliceMut<T> {
    fn par_chunks_mut(&mut self, chunk_size: usize) -> ParIter<&mut [T]>;
}
impl<T> ParallelSliceMut<T> for [T] {
    fn par_chunks_mut(&mut self, chunk_size: usize) -> ParIter<&mut [T]> {
        assert!(chunk_size != 0, "chunk_size must not be zero");
        ParIter { items: self.chunks_mut(chunk_size).collect(), min_len: 1 }
    }
}

impl<I> ParIter<I> {
    pub fn len(&self) -> usize {
        self.items.len()
    }
    pub fn is_empty(&self) -> bool {
        self.items.is_empty()
    }
    pub fn with_min_len(mut self, min: usize) -> Self {
        self.min_len = self.min_len.max(min).max(1);
        self
    }
    pub fn with_max_len(self, _max: usize) -> Self {
        self
    }
    pub fn enumerate(self) -> ParIter<(usize, I)> {
        ParIter { items: self.items.into_iter().enumerate().collect(), min_len: self.min_len }
    }
    pub fn zip<Z: IntoParallelIterator<Iter = ParIter<<Z as IntoParallelIterator>::Item>>>(
        self,
        other: Z,
    ) -> ParIter<(I, Z::Item)> {
        let o = other.into_par_iter();
        ParIter {
            items: self.items.into_iter().zip(o.items).collect(),
            min_len: self.min_len.max(o.min_len),
        }
    }
    pub fn map<R, F: Fn(I) -> R>(self, f: F) -> Map<I, F> {
        Map { base: self, f }
    }
    pub fn for_each<F: Fn(I)>(self, f: F) {
        let n = self.items.len();
        let seq = schedule(n, self.min_len);
        let mut slots: Vec<Option<I>> = self.items.into_iter().map(Some).collect();
        for i in seq {
            let item = slots[i].take().expect("task scheduled twice");
            let _g = TaskGuard::new();
            f(item);
        }
    }
    pub fn collect<C: FromIterator<I>>(self) -> C {
        self.items.into_iter().collect()
    }
    pub fn count(self) -> usize {
        self.items.len()
    }
}

impl<I, R, F: Fn(I) -> R> Map<I, F> {
    fn run(self) -> Vec<R> {
        let n = self.base.items.len();
        let seq = schedule(n, self.base.min_len);
        let mut slots: Vec<Option<I>> = self.base.items.into_iter().map(Some).collect();
        let mut out: Vec<Option<R>> = (0..n).map(|_| None).collect();
        for i in seq {
            let item = slots[i].take().expect("task scheduled twice");
            let _g = TaskGuard::new();
            out[i] = Some((self.f)(item));
        }
        out.into_iter().map(|r| r.expect("task not run")).collect()
    }
    /// results keep index order, whatever order the tasks ran in (rayon's guarantee for indexed
    /// iterators)
    pub fn collect<C: FromIterator<R>>(self) -> C {
        self.run().into_iter().collect()
    }
    pub fn for_each<G: Fn(R)>(self, g: G) {
        let Map { base, f } = self;
        base.for_each(|i| g(f(i)));
    }
    pub fn with_min_len(mut self, min: usize) -> Self {
        self.base = self.base.with_min_len(min);
        self
    }
}

// find_any over an integer range
// ================================================================================================

pub struct RangeIter {
    start: u64,
    end: u64,
}

impl IntoParallelIterator for std::ops::Range<u64> {
    type Item = u64;
    type Iter = RangeIter;
    fn into_par_iter(self) -> RangeIter {
        RangeIter { start: self.start, end: self.end }
    }
}

impl RangeIter {
    /// Any match may be returned. The range is cut into one contiguous sub-range per worker; the
    /// tape advances one worker at a time by a small batch; the first match found wins. The
    /// all-zero tape lets worker 0 run alone from the start of the range, which is what the
    /// serial build does.
    pub fn find_any<P: Fn(&u64) -> bool>(self, pred: P) -> Option<u64> {
        next_region();
        stats::count("sched.find_any", 1);
        let t = if FIND_ANY_WORKER0.with(|c| c.get()) { 1 } else { current_num_threads() as u64 };
        let len = self.end.saturating_sub(self.start);
        if len == 0 {
            return None;
        }
        let w = t.min(len).max(1);
        let share = len / w;
        let mut cursors: Vec<u64> = (0..w).map(|k| self.start + k * share).collect();
        let ends: Vec<u64> =
            (0..w).map(|k| if k + 1 == w { self.end } else { self.start + (k + 1) * share }).collect();
        let mut live: Vec<usize> = (0..w as usize).collect();
        const BATCH: u64 = 16;
        while !live.is_empty() {
            let pick = if live.len() > 1 { tape::s("find_any.worker", live.len() as u64) as usize } else { 0 };
            let wi = live[pick];
            let stop = (cursors[wi] + BATCH).min(ends[wi]);
            while cursors[wi] < stop {
                let v = cursors[wi];
                cursors[wi] += 1;
                if pred(&v) {
                    if wi != 0 {
                        stats::count("sched.find_any_other_worker_won", 1);
                    }
                    stats::sig(mix(&[0xf1d, wi as u64]));
                    return Some(v);
                }
            }
            if cursors[wi] >= ends[wi] {
                live.remove(pick);
            }
        }
        None
    }
}


// SCOPE
// ================================================================================================

type Job<'scope> = Box<dyn FnOnce(&Scope<'scope>) + 'scope>;

pub struct Scope<'scope> {
    pending: RefCell<Vec<Job<'scope>>>,
    spawned: Cell<u64>,
    order_sig: Cell<u64>,
}

impl<'scope> Scope<'scope> {
    pub fn spawn<BODY>(&self, body: BODY)
    where
        BODY: FnOnce(&Scope<'scope>) + 'scope,
    {
        let id = self.spawned.get();
        self.spawned.set(id + 1);
        self.pending.borrow_mut().push(Box::new(move |s: &Scope<'scope>| {
            s.order_sig.set(mix(&[s.order_sig.get(), id]));
            body(s)
        }));
        // a worker may pick the task up before the spawning thread goes on
        if current_num_threads() > 1 && DEPTH.with(|d| d.get()) == 0 {
            let n = self.pending.borrow().len() as u64;
            // 0 = nobody picks anything up yet
            let pick = tape::s("scope.steal_at_spawn", n + 1);
            if pick > 0 {
                let job = self.pending.borrow_mut().remove((pick - 1) as usize);
                let _g = TaskGuard::new();
                job(self);
            }
        }
    }

    fn drain(&self) {
        loop {
            let n = self.pending.borrow().len();
            if n == 0 {
                break;
            }
            let pick = if n > 1 && current_num_threads() > 1 {
                tape::s("scope.next_task", n as u64) as usize
            } else {
                0
            };
            let job = self.pending.borrow_mut().remove(pick);
            let _g = TaskGuard::new();
            job(self);
        }
    }
}

pub fn scope<'scope, OP, R>(op: OP) -> R
where
    OP: FnOnce(&Scope<'scope>) -> R,
{
    let region = next_region();
    stats::count("sched.scopes", 1);
    let s = Scope { pending: RefCell::new(Vec::new()), spawned: Cell::new(0), order_sig: Cell::new(region) };
    let r = op(&s);
    s.drain();
    stats::count("sched.scope_tasks", s.spawned.get());
    stats::sig(s.order_sig.get());
    r
}

pub fn join<A, B, RA, RB>(a: A, b: B) -> (RA, RB)
where
    A: FnOnce() -> RA,
    B: FnOnce() -> RB,
{
    next_region();
    if current_num_threads() > 1 && tape::s("join.b_first", 2) == 1 {
        let rb = b();
        let ra = a();
        (ra, rb)
    } else {
        let ra = a();
        let rb = b();
        (ra, rb)
    }
}
