//! Per-run measurements. Nothing here draws from the tape or reads a clock.

use std::{cell::RefCell, collections::BTreeMap};

use crate::rng::mix;

#[derive(Clone, Debug, Default)]
pub struct RunStats {
    pub counters: BTreeMap<String, u64>,
    /// order-sensitive hash of what this run looked like (its class / interleaving / fault set)
    pub sig: u64,
    /// set when the run was non-trivial by the scenario's own rule
    pub nontrivial: bool,
    /// description of the case (written out for the first runs only)
    pub sample: Option<String>,
    /// bounded event log (what happened, in order); goes into replay files
    pub events: Vec<String>,
    pub events_dropped: u64,
    /// records a run hands to the supervisor (written to a per-scenario file, in run order)
    pub emits: Vec<String>,
}

thread_local! {
    static STATS: RefCell<RunStats> = RefCell::new(RunStats::default());
    static VERBOSE: RefCell<bool> = const { RefCell::new(false) };
}

const MAX_EVENTS: usize = 400;

pub fn reset(verbose: bool) {
    STATS.with(|s| *s.borrow_mut() = RunStats::default());
    VERBOSE.with(|v| *v.borrow_mut() = verbose);
}

pub fn take() -> RunStats {
    STATS.with(|s| std::mem::take(&mut *s.borrow_mut()))
}

pub fn count(name: &str, n: u64) {
    STATS.with(|s| {
        let mut s = s.borrow_mut();
        match s.counters.get_mut(name) {
            Some(c) => *c += n,
            None => {
                s.counters.insert(name.to_string(), n);
            },
        }
    });
}

pub fn probe(name: &str) {
    count(name, 1);
}

pub fn sig(v: u64) {
    STATS.with(|s| {
        let mut s = s.borrow_mut();
        s.sig = mix(&[s.sig, v]);
    });
}

pub fn sig_str(v: &str) {
    sig(crate::rng::fnv(v.as_bytes()));
}

pub fn nontrivial() {
    STATS.with(|s| s.borrow_mut().nontrivial = true);
}

pub fn verbose() -> bool {
    VERBOSE.with(|v| *v.borrow())
}

/// records an event of the run; formatted lazily only when somebody will read it
pub fn event(f: impl FnOnce() -> String) {
    if !verbose() {
        return;
    }
    STATS.with(|s| {
        let mut s = s.borrow_mut();
        if s.events.len() < MAX_EVENTS {
            let e = f();
            s.events.push(e);
        } else {
            s.events_dropped += 1;
        }
    });
}

/// hands a record to the supervisor; it ends up in target/digests/<scenario>-<config>.txt
pub fn emit(line: String) {
    STATS.with(|s| s.borrow_mut().emits.push(line));
}

pub fn sample(f: impl FnOnce() -> String) {
    if !verbose() {
        return;
    }
    STATS.with(|s| {
        let mut s = s.borrow_mut();
        if s.sample.is_none() {
            s.sample = Some(f());
        }
    });
}
