//! Batch driver: worker processes, crash containment, minimisation, replay files, evidence.
//!
//! One binary plays every role, selected by its first argument:
//!   batch <property> <tier> <partial-evidence-out>   supervisor for one build configuration
//!   worker <scenario> <seed> <start> <end> <nverbose> one chunk of runs (child of batch)
//!   probe <scenario> <values-file>                    one lenient replay (child of the minimiser)
//!   replay <file>                                     strict replay of a replay file
//!   list                                              scenarios compiled into this binary

use std::{
    collections::{BTreeMap, BTreeSet},
    io::{BufRead, BufReader, Write},
    process::{Child, Command, Stdio},
    sync::mpsc,
    time::{Duration, Instant},
};

use crate::{
    alloc, guard_raw,
    json::Json,
    rng::{fnv, mix},
    stats::{self, RunStats},
    tape::{self, ReplayEntry, Tape, TapeRecord, STREAM_NAMES},
    Outcome, Violation,
};

pub struct Scenario {
    pub property: &'static str,
    pub name: &'static str,
    pub about: &'static str,
    pub run: fn() -> Outcome,
    /// fixed run counts per tier
    pub quick: u64,
    pub thorough: u64,
    /// seconds without progress before the supervisor calls a run hung
    pub watchdog_s: u64,
    /// largest single allocation a run may request
    pub alloc_cap: usize,
    /// whether a run that kills or hangs its worker process counts as a violation of this
    /// scenario's property (false where another property owns crash-freedom)
    pub fatal_is_violation: bool,
}

impl Scenario {
    pub const fn new(
        property: &'static str,
        name: &'static str,
        about: &'static str,
        run: fn() -> Outcome,
        quick: u64,
        thorough: u64,
    ) -> Self {
        Scenario {
            property,
            name,
            about,
            run,
            quick,
            thorough,
            watchdog_s: 60,
            alloc_cap: alloc::DEFAULT_CAP,
            fatal_is_violation: true,
        }
    }
    pub fn full_name(&self) -> String {
        format!("{}/{}", self.property, self.name)
    }
}

/// root of the verification tree (known findings, replays); `./check` exports its own location
pub fn verif_dir() -> String {
    std::env::var("VERIF_DIR").unwrap_or_else(|_| "/verif".to_string())
}

fn base_seed() -> u64 {
    match std::env::var("VERIF_SEED") {
        Ok(s) => s.trim().parse::<u64>().unwrap_or_else(|_| fnv(s.as_bytes())),
        Err(_) => 1,
    }
}

thread_local! {
    static CONFIG: std::cell::RefCell<String> = const { std::cell::RefCell::new(String::new()) };
}
pub fn config_name() -> String {
    CONFIG.with(|c| c.borrow().clone())
}

pub fn run_seed(base: u64, scenario: &str, idx: u64) -> u64 {
    mix(&[base, fnv(scenario.as_bytes()), idx])
}

// ONE RUN
// ================================================================================================

pub struct RunResult {
    pub violation: Option<Violation>,
    pub harness_panic: Option<String>,
    pub stats: RunStats,
    pub record: TapeRecord,
    pub diverged: Option<String>,
    pub max_alloc: usize,
    pub draws: [u64; 3],
}

pub fn run_one(sc: &Scenario, t: Tape, verbose: bool, seed_for_poison: u64) -> RunResult {
    stats::reset(verbose);
    tape::install(t);
    alloc::begin_run(0x80 | ((seed_for_poison as u8) & 0x7f) | 1, sc.alloc_cap);
    let res = guard_raw(|| (sc.run)());
    let (max_alloc, _total) = alloc::end_run();
    let t = tape::take().expect("tape vanished");
    let diverged = t.diverged.clone();
    let draws = t.draws;
    let record = t.finish();
    let st = stats::take();
    let (violation, harness_panic) = match res {
        Ok(Ok(())) => (None, None),
        Ok(Err(v)) => (Some(v), None),
        Err(p) => {
            if p.in_harness() {
                (None, Some(format!("{}:{}: {}", p.file, p.line, p.msg)))
            } else {
                (Some(Violation::new("panic", p.site(), format!("{}:{}: {}", p.file, p.line, p.msg))), None)
            }
        },
    };
    RunResult { violation, harness_panic, stats: st, record, diverged, max_alloc, draws }
}

// WORKER
// ================================================================================================

fn find<'a>(scs: &'a [Scenario], full: &str) -> &'a Scenario {
    scs.iter()
        .find(|s| s.full_name() == full)
        .unwrap_or_else(|| crate::harness_error(&format!("unknown scenario {full}")))
}

fn viol_json(v: &Violation) -> Json {
    Json::obj()
        .set("oracle", Json::str(&v.oracle))
        .set("site", Json::str(&v.site))
        .set("detail", Json::str(&v.detail))
}

fn worker(scs: &[Scenario], args: &[String]) {
    let sc = find(scs, &args[0]);
    let base: u64 = args[1].parse().unwrap();
    let start: u64 = args[2].parse().unwrap();
    let end: u64 = args[3].parse().unwrap();
    let nverbose: u64 = args[4].parse().unwrap();
    let full = sc.full_name();
    let out = std::io::stdout();
    let mut counters: BTreeMap<String, u64> = BTreeMap::new();
    let mut sigs: BTreeSet<u64> = BTreeSet::new();
    let mut logsum: u64 = 0;
    let mut max_alloc = 0usize;
    let mut draws = [0u64; 3];
    for idx in start..end {
        {
            let mut o = out.lock();
            let _ = writeln!(o, "@S {idx}");
            let _ = o.flush();
        }
        let seed = run_seed(base, &full, idx);
        let verbose = idx < nverbose;
        let r = run_one(sc, Tape::from_seed(seed).with_index(idx), verbose, seed);
        if let Some(h) = r.harness_panic {
            let mut o = out.lock();
            let _ = writeln!(o, "@H {idx} {}", Json::str(h).to_string_compact());
            let _ = o.flush();
            std::process::exit(2);
        }
        for (k, v) in r.stats.counters.iter() {
            *counters.entry(k.clone()).or_insert(0) += v;
        }
        if r.stats.nontrivial {
            sigs.insert(r.stats.sig);
        }
        for i in 0..3 {
            draws[i] += r.draws[i];
        }
        max_alloc = max_alloc.max(r.max_alloc);
        // determinism log: hash of (idx, outcome, signature, tape values)
        let vals = r.record.values();
        let mut h = mix(&[idx, r.stats.sig, r.violation.is_some() as u64]);
        for s in vals.iter() {
            for &v in s.iter() {
                h = mix(&[h, v]);
            }
        }
        // commutative combination: independent of how runs are cut into chunks
        logsum = logsum.wrapping_add(mix(&[h, 0x10c]));
        if let Some(v) = &r.violation {
            let mut o = out.lock();
            let _ = writeln!(o, "@V {idx} {}", viol_json(v).to_string_compact());
        }
        if !r.stats.emits.is_empty() {
            let mut o = out.lock();
            for e in r.stats.emits.iter() {
                let _ = writeln!(o, "@D {idx} {}", e.replace('\n', " "));
            }
        }
        if verbose {
            if let Some(s) = &r.stats.sample {
                let mut o = out.lock();
                let _ = writeln!(o, "@M {idx} {}", Json::str(s.clone()).to_string_compact());
            }
        }
    }
    let agg = Json::obj()
        .set("counters", Json::from_map(&counters))
        .set("sigs", Json::Arr(sigs.iter().map(|s| Json::Str(format!("{s:x}"))).collect()))
        .set("logsum", Json::Str(format!("{logsum:x}")))
        .set("max_alloc", Json::Int(max_alloc as i128))
        .set("draws", Json::Arr(draws.iter().map(|d| Json::Int(*d as i128)).collect()));
    let mut o = out.lock();
    let _ = writeln!(o, "@A {}", agg.to_string_compact());
    let _ = o.flush();
}

// SUPERVISOR
// ================================================================================================

#[derive(Clone, Debug)]
pub struct Found {
    pub scenario: String,
    pub idx: u64,
    pub violation: Violation,
}

#[derive(Default)]
struct ScenarioAgg {
    runs: u64,
    counters: BTreeMap<String, u64>,
    sigs: BTreeSet<u64>,
    logsum: u64,
    samples: Vec<(u64, String)>,
    emits: Vec<(u64, String)>,
    max_alloc: usize,
    draws: [u64; 3],
    found: Vec<Found>,
}

/// messages of a worker's reader thread, tagged with the slot AND the worker's process id: a
/// worker killed by the watchdog is replaced in the same slot, and its reader thread reports the
/// end of its pipe only afterwards - that report must not be taken for the replacement's
enum Msg {
    Line(usize, u32, String),
    Eof(usize, u32),
}

/// CPU seconds (user + system) consumed so far by process `pid`, from /proc/<pid>/stat. The
/// watchdog measures CPU time and not wall time: on a loaded machine a run that needs 2 CPU
/// seconds can take minutes of wall time, and a hang in single-threaded, lock-free code is a loop
/// that burns CPU. Wall time is only a distant backstop (a process that is blocked, not spinning).
fn cpu_seconds(pid: u32) -> Option<f64> {
    let stat = std::fs::read_to_string(format!("/proc/{pid}/stat")).ok()?;
    // the command name (field 2) may contain spaces: parse after the closing parenthesis
    let rest = &stat[stat.rfind(')')? + 1..];
    let f: Vec<&str> = rest.split_whitespace().collect();
    // rest starts at field 3 (state); utime is field 14, stime field 15
    let utime: f64 = f.get(11)?.parse().ok()?;
    let stime: f64 = f.get(12)?.parse().ok()?;
    Some((utime + stime) / 100.0)
}

/// has the child used more than `cpu_limit_s` CPU seconds since `cpu_base`, or been alive for more
/// than the wall-clock backstop since `wall_start`?
fn over_budget(pid: u32, cpu_base: f64, wall_start: Instant, cpu_limit_s: u64) -> bool {
    let backstop = Duration::from_secs((cpu_limit_s * 20).max(1800));
    if wall_start.elapsed() > backstop {
        return true;
    }
    match cpu_seconds(pid) {
        Some(c) => c - cpu_base > cpu_limit_s as f64,
        None => false,
    }
}

struct Slot {
    child: Child,
    start: u64,
    end: u64,
    current: Option<u64>,
    last_progress: Instant,
    cpu_at_progress: f64,
    got_agg: bool,
}

fn spawn_worker(
    exe: &std::path::Path,
    full: &str,
    base: u64,
    start: u64,
    end: u64,
    nverbose: u64,
    slot_id: usize,
    tx: &mpsc::Sender<Msg>,
) -> Slot {
    let mut child = Command::new(exe)
        .args(["worker", full, &base.to_string(), &start.to_string(), &end.to_string(), &nverbose.to_string()])
        .stdin(Stdio::null())
        .stdout(Stdio::piped())
        .stderr(Stdio::null())
        .spawn()
        .unwrap_or_else(|e| crate::harness_error(&format!("cannot spawn worker: {e}")));
    let stdout = child.stdout.take().unwrap();
    let tx = tx.clone();
    let pid = child.id();
    std::thread::spawn(move || {
        let rd = BufReader::new(stdout);
        for line in rd.lines() {
            match line {
                Ok(l) => {
                    if tx.send(Msg::Line(slot_id, pid, l)).is_err() {
                        return;
                    }
                },
                Err(_) => break,
            }
        }
        let _ = tx.send(Msg::Eof(slot_id, pid));
    });
    Slot { child, start, end, current: None, last_progress: Instant::now(), cpu_at_progress: 0.0, got_agg: false }
}

fn run_scenario(exe: &std::path::Path, sc: &Scenario, base: u64, total: u64, jobs: usize) -> ScenarioAgg {
    let full = sc.full_name();
    let nverbose = 3u64;
    let mut agg = ScenarioAgg { runs: 0, ..Default::default() };
    // chunks: contiguous ranges; small enough to balance, large enough to amortise process start
    let chunk = (total / (jobs as u64 * 8)).clamp(1, 20_000);
    let mut next = 0u64;
    let (tx, rx) = mpsc::channel::<Msg>();
    let mut slots: Vec<Option<Slot>> = (0..jobs).map(|_| None).collect();
    let mut pending: Vec<(u64, u64)> = Vec::new(); // remainders of chunks whose worker died
    let mut skip_rest = false; // set once the scenario keeps killing its workers
    let mut logsums: BTreeMap<u64, u64> = BTreeMap::new();
    let watchdog = Duration::from_secs(sc.watchdog_s);
    loop {
        // fill free slots
        for i in 0..jobs {
            if slots[i].is_none() {
                let range = if let Some(r) = pending.pop() {
                    Some(r)
                } else if next < total {
                    let s = next;
                    let e = (next + chunk).min(total);
                    next = e;
                    Some((s, e))
                } else {
                    None
                };
                if let Some((s, e)) = range {
                    slots[i] = Some(spawn_worker(exe, &full, base, s, e, nverbose, i, &tx));
                }
            }
        }
        if slots.iter().all(|s| s.is_none()) {
            break;
        }
        // a scenario that keeps killing its workers is not explored further: the violation is
        // established, and every further death costs a process start
        let fatal = agg.found.iter().filter(|f| f.violation.oracle == "process-died" || f.violation.oracle == "hang").count();
        if fatal >= 24 && (next < total || !pending.is_empty()) {
            println!("  {}: {} runs killed their worker; remaining runs of this scenario are skipped", full, fatal);
            next = total;
            pending.clear();
            skip_rest = true;
        }
        match rx.recv_timeout(Duration::from_millis(200)) {
            Ok(Msg::Line(i, pid, line)) => {
                let Some(slot) = slots[i].as_mut() else { continue };
                if slot.child.id() != pid {
                    continue;
                }
                slot.last_progress = Instant::now();
                slot.cpu_at_progress = cpu_seconds(slot.child.id()).unwrap_or(slot.cpu_at_progress);
                // protocol lines start with '@'; anything else is output of the code under test
                let Some(line) = line.strip_prefix('@') else { continue };
                let (tag, rest) = line.split_at(line.len().min(1));
                let rest = rest.trim_start();
                match tag {
                    "S" => {
                        slot.current = rest.parse().ok();
                    },
                    "V" => {
                        let (idx, js) = rest.split_once(' ').unwrap_or((rest, "{}"));
                        let j = Json::parse(js).unwrap_or(Json::Null);
                        let g = |k: &str| j.get(k).and_then(|v| v.as_str()).unwrap_or("").to_string();
                        agg.found.push(Found {
                            scenario: full.clone(),
                            idx: idx.parse().unwrap_or(0),
                            violation: Violation { oracle: g("oracle"), site: g("site"), detail: g("detail") },
                        });
                    },
                    "M" => {
                        let (idx, js) = rest.split_once(' ').unwrap_or((rest, "\"\""));
                        if let Ok(Json::Str(s)) = Json::parse(js) {
                            agg.samples.push((idx.parse().unwrap_or(0), s));
                        }
                    },
                    "D" => {
                        let (idx, text) = rest.split_once(' ').unwrap_or((rest, ""));
                        agg.emits.push((idx.parse().unwrap_or(0), text.to_string()));
                    },
                    "H" => {
                        crate::harness_error(&format!("worker reported a panic in harness code: {rest}"));
                    },
                    "A" => {
                        slot.got_agg = true;
                        let j = Json::parse(rest).unwrap_or(Json::Null);
                        if let Some(Json::Obj(items)) = j.get("counters") {
                            for (k, v) in items {
                                *agg.counters.entry(k.clone()).or_insert(0) += v.as_u64().unwrap_or(0);
                            }
                        }
                        if let Some(arr) = j.get("sigs").and_then(|a| a.as_arr()) {
                            for s in arr {
                                if let Some(h) = s.as_str().and_then(|h| u64::from_str_radix(h, 16).ok()) {
                                    agg.sigs.insert(h);
                                }
                            }
                        }
                        if let Some(h) = j.get("logsum").and_then(|s| s.as_str()) {
                            logsums.insert(slot.start, u64::from_str_radix(h, 16).unwrap_or(0));
                        }
                        agg.max_alloc = agg.max_alloc.max(j.get("max_alloc").and_then(|v| v.as_u64()).unwrap_or(0) as usize);
                        if let Some(d) = j.get("draws").and_then(|a| a.as_arr()) {
                            for k in 0..3 {
                                agg.draws[k] += d.get(k).and_then(|v| v.as_u64()).unwrap_or(0);
                            }
                        }
                        agg.runs += slot.end - slot.start;
                    },
                    _ => {},
                }
            },
            Ok(Msg::Eof(i, pid)) => {
                if slots[i].as_ref().map(|s| s.child.id()) != Some(pid) {
                    continue;
                }
                if let Some(mut slot) = slots[i].take() {
                    let status = slot.child.wait().ok();
                    if !slot.got_agg {
                        // the worker died in the middle of a run
                        let code = status.and_then(|s| s.code());
                        if code == Some(2) {
                            crate::harness_error("worker exited with a harness error");
                        }
                        let idx = slot.current.unwrap_or(slot.start);
                        let how = match status {
                            Some(s) => format!("{s}"),
                            None => "unknown".to_string(),
                        };
                        agg.found.push(Found {
                            scenario: full.clone(),
                            idx,
                            violation: Violation::new(
                                "process-died",
                                "abort-or-signal",
                                format!("worker process died during run {idx}: {how}"),
                            ),
                        });
                        agg.runs += idx + 1 - slot.start;
                        if idx + 1 < slot.end {
                            if !skip_rest {
                                if !skip_rest {
                        pending.push((idx + 1, slot.end));
                    }
                            }
                        }
                    }
                }
            },
            Err(mpsc::RecvTimeoutError::Timeout) => {},
            Err(mpsc::RecvTimeoutError::Disconnected) => break,
        }
        // watchdog
        for i in 0..jobs {
            let hung = match slots[i].as_ref() {
                Some(s) => over_budget(s.child.id(), s.cpu_at_progress, s.last_progress, watchdog.as_secs()),
                None => false,
            };
            if hung {
                let mut slot = slots[i].take().unwrap();
                let _ = slot.child.kill();
                let _ = slot.child.wait();
                let idx = slot.current.unwrap_or(slot.start);
                agg.found.push(Found {
                    scenario: full.clone(),
                    idx,
                    violation: Violation::new(
                        "hang",
                        "watchdog",
                        format!("run {idx} made no progress within {} CPU seconds", sc.watchdog_s),
                    ),
                });
                agg.runs += idx + 1 - slot.start;
                if idx + 1 < slot.end {
                    pending.push((idx + 1, slot.end));
                }
            }
        }
    }
    // order-independent combination of per-chunk logs (chunks are keyed by their start index)
    let mut h = 0u64;
    for (_s, l) in logsums {
        h = h.wrapping_add(l);
    }
    agg.logsum = h;
    agg.found.sort_by_key(|f| f.idx);
    agg.samples.sort();
    agg.emits.sort();
    if !agg.emits.is_empty() {
        let dir = format!("{}/target/digests", verif_dir());
        let _ = std::fs::create_dir_all(&dir);
        let path = format!("{dir}/{}-{}-{}.txt", sc.property, sc.name, config_name());
        let mut text = String::new();
        for (i, e) in agg.emits.iter() {
            text.push_str(&format!("{i} {e}\n"));
        }
        if let Err(e) = std::fs::write(&path, text) {
            crate::harness_error(&format!("cannot write {path}: {e}"));
        }
    }
    agg
}

// KNOWN FINDINGS
// ================================================================================================

pub struct Known {
    pub property: String,
    pub key: String,
    pub what: String,
}

pub fn load_known() -> Vec<Known> {
    let path = format!("{}/known_findings.txt", verif_dir());
    let text = std::fs::read_to_string(path).unwrap_or_default();
    let mut out = Vec::new();
    for line in text.lines() {
        let line = line.trim();
        if !line.starts_with("finding:") {
            continue;
        }
        let rest = line["finding:".len()..].trim();
        let (head, what) = rest.split_once("::").unwrap_or((rest, ""));
        let mut property = String::new();
        let mut key = String::new();
        for part in head.split_whitespace() {
            if let Some(p) = part.strip_prefix("property=") {
                property = p.to_string();
            }
        }
        if let Some(i) = head.find("key=") {
            key = head[i + 4..].trim().to_string();
        }
        out.push(Known { property, key, what: what.trim().to_string() });
    }
    out
}

fn known_match<'a>(known: &'a [Known], property: &str, key: &str) -> Option<&'a Known> {
    known.iter().find(|k| {
        k.property == property
            && (k.key == key
                || (k.key.ends_with('*') && key.starts_with(&k.key[..k.key.len() - 1])))
    })
}

// REPLAY FILES
// ================================================================================================

fn record_json(rec: &TapeRecord) -> Json {
    let mut o = Json::obj();
    for (i, name) in STREAM_NAMES.iter().enumerate() {
        // drop the all-zero tail: past the end every draw is 0 anyway
        let s = &rec.streams[i];
        let keep = s.iter().rposition(|r| r.value != 0).map(|p| p + 1).unwrap_or(0);
        let arr = s[..keep]
            .iter()
            .map(|r| Json::Arr(vec![Json::str(r.label), Json::Int(r.bound as i128), Json::Int(r.value as i128)]))
            .collect();
        o = o.set(name, Json::Arr(arr));
    }
    o
}

fn replay_entries(j: &Json) -> [Vec<ReplayEntry>; 3] {
    let mut out: [Vec<ReplayEntry>; 3] = [Vec::new(), Vec::new(), Vec::new()];
    for (i, name) in STREAM_NAMES.iter().enumerate() {
        if let Some(arr) = j.get(name).and_then(|a| a.as_arr()) {
            for e in arr {
                let t = e.as_arr().unwrap_or(&[]);
                out[i].push(ReplayEntry {
                    label_hash: fnv(t.first().and_then(|l| l.as_str()).unwrap_or("").as_bytes()),
                    bound: t.get(1).and_then(|b| b.as_u64()).unwrap_or(1),
                    value: t.get(2).and_then(|b| b.as_u64()).unwrap_or(0),
                });
            }
        }
    }
    out
}

fn schedule_deviations(rec: &TapeRecord) -> Json {
    let s = &rec.streams[1];
    let dev: Vec<Json> = s
        .iter()
        .enumerate()
        .filter(|(_, r)| r.value != 0)
        .take(200)
        .map(|(i, r)| Json::str(format!("#{i} {}={} (of {})", r.label, r.value, r.bound)))
        .collect();
    Json::Arr(dev)
}

fn faults_in_words(rec: &TapeRecord) -> Json {
    let s = &rec.streams[2];
    Json::Arr(
        s.iter()
            .filter(|r| r.value != 0)
            .take(200)
            .map(|r| Json::str(format!("{}={} (of {})", r.label, r.value, r.bound)))
            .collect(),
    )
}

// MINIMISER
// ================================================================================================

/// Runs the scenario from bare values in this process. Returns the violation key (if any) and the
/// record actually produced.
fn eval_inproc(sc: &Scenario, values: [Vec<u64>; 3], verbose: bool) -> (Option<Violation>, TapeRecord, RunStats) {
    let r = run_one(sc, Tape::from_values(values), verbose, 0);
    if let Some(h) = r.harness_panic {
        crate::harness_error(&format!("panic in harness code during minimisation: {h}"));
    }
    (r.violation, r.record, r.stats)
}

/// Runs the scenario from bare values in a child process (needed when the violation kills or
/// hangs the process).
fn eval_subproc(exe: &std::path::Path, sc: &Scenario, values: &[Vec<u64>; 3]) -> Option<String> {
    let dir = format!("{}/target/tmp", verif_dir());
    let _ = std::fs::create_dir_all(&dir);
    let path = format!("{dir}/probe-{}.json", std::process::id());
    let j = Json::Arr(
        values.iter().map(|s| Json::Arr(s.iter().map(|v| Json::Int(*v as i128)).collect())).collect(),
    );
    std::fs::write(&path, j.to_string_compact()).ok()?;
    let mut child = Command::new(exe)
        .args(["probe", &sc.full_name(), &path])
        .stdin(Stdio::null())
        .stdout(Stdio::piped())
        .stderr(Stdio::null())
        .spawn()
        .ok()?;
    let start = Instant::now();
    let limit = sc.watchdog_s.min(20);
    loop {
        match child.try_wait() {
            Ok(Some(status)) => {
                let mut out = String::new();
                if let Some(mut so) = child.stdout.take() {
                    use std::io::Read;
                    let _ = so.read_to_string(&mut out);
                }
                let _ = std::fs::remove_file(&path);
                if let Some(l) = out.lines().find(|l| l.starts_with("KEY ")) {
                    return Some(l[4..].to_string());
                }
                if out.lines().any(|l| l == "OK") {
                    return None;
                }
                let _ = status;
                return Some("process-died|abort-or-signal".to_string());
            },
            Ok(None) => {
                if over_budget(child.id(), 0.0, start, limit) {
                    let _ = child.kill();
                    let _ = child.wait();
                    let _ = std::fs::remove_file(&path);
                    return Some("hang|watchdog".to_string());
                }
                std::thread::sleep(Duration::from_millis(5));
            },
            Err(_) => return None,
        }
    }
}

/// one run from its seed with every draw streamed to a file (child of write_replay for fatal
/// violations): `record <scenario> <base> <idx> <file>`
fn record(scs: &[Scenario], args: &[String]) {
    let sc = find(scs, &args[0]);
    let base: u64 = args[1].parse().unwrap();
    let idx: u64 = args[2].parse().unwrap();
    tape::trace_to(&args[3]);
    let seed = run_seed(base, &sc.full_name(), idx);
    let r = run_one(sc, Tape::from_seed(seed).with_index(idx), false, seed);
    match r.violation {
        Some(v) => println!("KEY {}", v.key()),
        None => println!("OK"),
    }
}

/// reads back a draw trace written by `record`
fn read_trace(path: &str) -> ([Vec<u64>; 3], [Vec<(String, u64)>; 3]) {
    let mut values: [Vec<u64>; 3] = [Vec::new(), Vec::new(), Vec::new()];
    let mut meta: [Vec<(String, u64)>; 3] = [Vec::new(), Vec::new(), Vec::new()];
    for line in std::fs::read_to_string(path).unwrap_or_default().lines() {
        let f: Vec<&str> = line.split('\t').collect();
        if f.len() == 4 {
            if let (Ok(st), Ok(b), Ok(v)) = (f[0].parse::<usize>(), f[2].parse::<u64>(), f[3].parse::<u64>()) {
                if st < 3 {
                    values[st].push(v);
                    meta[st].push((f[1].to_string(), b));
                }
            }
        }
    }
    (values, meta)
}

fn probe(scs: &[Scenario], args: &[String]) {
    let sc = find(scs, &args[0]);
    let text = std::fs::read_to_string(&args[1]).unwrap_or_default();
    let j = Json::parse(&text).unwrap_or(Json::Null);
    let mut values: [Vec<u64>; 3] = [Vec::new(), Vec::new(), Vec::new()];
    if let Some(arr) = j.as_arr() {
        for i in 0..3 {
            if let Some(s) = arr.get(i).and_then(|a| a.as_arr()) {
                values[i] = s.iter().map(|v| v.as_u64().unwrap_or(0)).collect();
            }
        }
    }
    let (v, _, _) = eval_inproc(sc, values, false);
    match v {
        Some(v) => println!("KEY {}", v.key()),
        None => println!("OK"),
    }
}

struct Minimiser<'a> {
    exe: &'a std::path::Path,
    sc: &'a Scenario,
    key: String,
    subproc: bool,
    evals: u64,
    budget: u64,
    /// CPU seconds of this process at which in-process minimisation stops (a violation whose
    /// every candidate is a full proof must not keep the batch busy for hours; what has been
    /// removed by then is kept, and the replay file reproduces either way)
    cpu_deadline: f64,
}

impl Minimiser<'_> {
    /// does the candidate still show the same violation? Returns the canonical values (those the
    /// run actually consumed) when it does.
    fn test(&mut self, cand: &[Vec<u64>; 3]) -> Option<[Vec<u64>; 3]> {
        if self.evals >= self.budget {
            return None;
        }
        if !self.subproc && cpu_seconds(std::process::id()).unwrap_or(0.0) > self.cpu_deadline {
            return None;
        }
        self.evals += 1;
        if self.subproc {
            let k = eval_subproc(self.exe, self.sc, cand)?;
            if k == self.key {
                Some(cand.clone())
            } else {
                None
            }
        } else {
            let (v, rec, _) = eval_inproc(self.sc, cand.clone(), false);
            match v {
                Some(v) if v.key() == self.key => Some(rec.values()),
                _ => None,
            }
        }
    }
}

fn trim(values: &mut [Vec<u64>; 3]) {
    for s in values.iter_mut() {
        while s.last() == Some(&0) {
            s.pop();
        }
    }
}

/// Shrinks `values` while the same violation key reproduces. Order: faults, schedule, workload;
/// within a stream: truncate (zero the tail), zero blocks, then reduce surviving values.
fn minimise(exe: &std::path::Path, sc: &Scenario, key: &str, values: [Vec<u64>; 3], subproc: bool) -> ([Vec<u64>; 3], u64) {
    let mut m = Minimiser {
        exe,
        sc,
        key: key.to_string(),
        subproc,
        evals: 0,
        budget: if !subproc { 3000 } else if key.starts_with("hang") { 30 } else { 150 },
        cpu_deadline: cpu_seconds(std::process::id()).unwrap_or(0.0) + 90.0,
    };
    let mut cur = values;
    trim(&mut cur);
    let order = [2usize, 1, 0];
    let mut improved = true;
    let mut rounds = 0;
    while improved && rounds < 6 {
        improved = false;
        rounds += 1;
        for &si in order.iter() {
            // 1. zero the tail: binary search on the kept prefix length
            let mut lo = 0usize;
            let mut hi = cur[si].len();
            while lo < hi {
                let mid = (lo + hi) / 2;
                let mut cand = cur.clone();
                cand[si].truncate(mid);
                if let Some(c) = m.test(&cand) {
                    cur = c;
                    trim(&mut cur);
                    hi = mid.min(cur[si].len());
                    improved = true;
                } else {
                    lo = mid + 1;
                }
                if cur[si].len() < hi {
                    hi = cur[si].len();
                }
            }
            // 2. zero blocks of decreasing size
            let mut block = cur[si].len().next_power_of_two().max(1);
            while block >= 1 {
                let mut start = 0;
                while start < cur[si].len() {
                    let end = (start + block).min(cur[si].len());
                    if cur[si][start..end].iter().any(|&v| v != 0) {
                        let mut cand = cur.clone();
                        for v in cand[si][start..end].iter_mut() {
                            *v = 0;
                        }
                        if let Some(c) = m.test(&cand) {
                            cur = c;
                            trim(&mut cur);
                            improved = true;
                        }
                    }
                    start += block;
                }
                if block == 1 {
                    break;
                }
                block /= 2;
            }
            // 3. reduce surviving values: try 0 (done), 1, half, minus one
            let mut i = 0;
            while i < cur[si].len() {
                let v = cur[si][i];
                if v > 1 {
                    for cand_v in [1u64, v / 2, v - 1] {
                        if cand_v >= cur[si].get(i).copied().unwrap_or(0) {
                            continue;
                        }
                        let mut cand = cur.clone();
                        cand[si][i] = cand_v;
                        if let Some(c) = m.test(&cand) {
                            cur = c;
                            trim(&mut cur);
                            improved = true;
                            break;
                        }
                    }
                }
                i += 1;
            }
        }
    }
    (cur, m.evals)
}

// REPORTING A VIOLATION
// ================================================================================================

fn write_replay(
    exe: &std::path::Path,
    sc: &Scenario,
    config: &str,
    base: u64,
    f: &Found,
) -> Result<String, String> {
    let full = sc.full_name();
    let seed = run_seed(base, &full, f.idx);
    let key = f.violation.key();
    let fatal = f.violation.oracle == "process-died" || f.violation.oracle == "hang";
    // reproduce from the seed to get the recorded tape
    if fatal {
        // the run kills or hangs its process: record its decisions from a child that streams
        // every draw to a file, minimise with one child per candidate, replay by values
        let dir = format!("{}/target/tmp", verif_dir());
        let _ = std::fs::create_dir_all(&dir);
        let tfile = format!("{dir}/trace-{}.txt", std::process::id());
        let mut child = Command::new(exe)
            .args(["record", &full, &base.to_string(), &f.idx.to_string(), &tfile])
            .stdin(Stdio::null())
            .stdout(Stdio::null())
            .stderr(Stdio::null())
            .spawn()
            .map_err(|e| e.to_string())?;
        let t0 = Instant::now();
        loop {
            match child.try_wait() {
                Ok(Some(_)) => break,
                Ok(None) if over_budget(child.id(), 0.0, t0, sc.watchdog_s.min(30)) => {
                    let _ = child.kill();
                    let _ = child.wait();
                    break;
                },
                Ok(None) => std::thread::sleep(Duration::from_millis(10)),
                Err(e) => return Err(e.to_string()),
            }
        }
        let (values, _meta) = read_trace(&tfile);
        let _ = std::fs::remove_file(&tfile);
        let confirmed = eval_subproc(exe, sc, &values);
        if confirmed.as_deref() != Some(key.as_str()) {
            return Err(format!("fatal run {} of {} did not reproduce from its recorded decisions (got {:?}, wanted {})", f.idx, full, confirmed, key));
        }
        let before: usize = values.iter().map(|s| s.iter().filter(|v| **v != 0).count()).sum();
        let (minv, evals) = minimise(exe, sc, &key, values, true);
        let after: usize = minv.iter().map(|s| s.iter().filter(|v| **v != 0).count()).sum();
        stats_note(before, after);
        let dir = format!("{}/replays", verif_dir());
        let _ = std::fs::create_dir_all(&dir);
        let h = fnv(key.as_bytes()) & 0xffff_ffff;
        let path = format!("{dir}/{}-{}-{}-{}-{:08x}.json", sc.property, sc.name, config, base, h);
        let vals = Json::Arr(minv.iter().map(|s| Json::Arr(s.iter().map(|v| Json::Int(*v as i128)).collect())).collect());
        let j = Json::obj()
            .set("property", Json::str(sc.property))
            .set("scenario", Json::str(full.clone()))
            .set("config", Json::str(config))
            .set("verif_seed", Json::Int(base as i128))
            .set("tier", Json::str(std::env::var("VERIF_BATCH_TIER").unwrap_or_else(|_| "quick".to_string())))
            .set("run_index", Json::Int(f.idx as i128))
            .set("run_seed", Json::Str(format!("{seed:x}")))
            .set("violation", viol_json(&f.violation))
            .set("key", Json::str(key.clone()))
            .set("minimiser_evaluations", Json::Int(evals as i128))
            .set("mode", Json::str("values-in-child"))
            .set("values", vals);
        std::fs::write(&path, j.to_string_pretty()).map_err(|e| e.to_string())?;
        let out = Command::new(exe).args(["replay", &path]).stdin(Stdio::null()).stdout(Stdio::piped()).stderr(Stdio::null()).output().map_err(|e| e.to_string())?;
        let text = String::from_utf8_lossy(&out.stdout);
        if !text.lines().any(|l| l == format!("REPRODUCED {key}")) {
            return Err(format!("replay of {path} in a fresh process did not reproduce {key}: {}", text.trim()));
        }
        return Ok(path);
    }
    let (values, detail) = if fatal {
        (None, f.violation.detail.clone())
    } else {
        let r = run_one(sc, Tape::from_seed(seed).with_index(f.idx), false, seed);
        match r.violation {
            Some(v) if v.key() == key => (Some(r.record.values()), v.detail),
            other => {
                return Err(format!(
                    "run {} of {} did not reproduce in the supervisor (got {:?}, wanted {})",
                    f.idx,
                    full,
                    other.map(|v| v.key()),
                    key
                ))
            },
        }
    };
    let mut evals = 0;
    let (record, events, sample, detail) = match values {
        Some(values) => {
            let before: usize = values.iter().map(|s| s.iter().filter(|v| **v != 0).count()).sum();
            let (minv, n) = minimise(exe, sc, &key, values, false);
            evals = n;
            let r = run_one(sc, Tape::from_values(minv), true, 0);
            let v = r.violation.clone().ok_or("minimised tape lost the violation")?;
            if v.key() != key {
                return Err("minimised tape changed the violation".into());
            }
            stats_note(before, r.record.nonzero());
            (Some(r.record), r.stats.events, r.stats.sample, v.detail)
        },
        None => (None, Vec::new(), None, detail),
    };
    let dir = format!("{}/replays", verif_dir());
    let _ = std::fs::create_dir_all(&dir);
    let h = fnv(key.as_bytes()) & 0xffff_ffff;
    let path = format!("{dir}/{}-{}-{}-{}-{:08x}.json", sc.property, sc.name, config, base, h);
    let mut j = Json::obj()
        .set("property", Json::str(sc.property))
        .set("scenario", Json::str(full.clone()))
        .set("config", Json::str(config))
        .set("verif_seed", Json::Int(base as i128))
        .set("tier", Json::str(std::env::var("VERIF_BATCH_TIER").unwrap_or_else(|_| "quick".to_string())))
        .set("run_index", Json::Int(f.idx as i128))
        .set("run_seed", Json::Str(format!("{seed:x}")))
        .set("violation", viol_json(&Violation { detail: detail.clone(), ..f.violation.clone() }))
        .set("key", Json::str(key.clone()))
        .set("minimiser_evaluations", Json::Int(evals as i128));
    match &record {
        Some(rec) => {
            j = j
                .set("mode", Json::str("tape"))
                .set("faults_in_words", faults_in_words(rec))
                .set("schedule_deviations_from_in_order", schedule_deviations(rec))
                .set("case", Json::str(sample.unwrap_or_default()))
                .set("events", Json::Arr(events.into_iter().map(Json::Str).collect()))
                .set("tape", record_json(rec));
        },
        None => {
            j = j.set("mode", Json::str("seed"));
        },
    }
    std::fs::write(&path, j.to_string_pretty()).map_err(|e| e.to_string())?;
    // replay in a fresh process; it must fail the same way
    let out = Command::new(exe)
        .args(["replay", &path])
        .stdin(Stdio::null())
        .stdout(Stdio::piped())
        .stderr(Stdio::null())
        .output()
        .map_err(|e| e.to_string())?;
    let text = String::from_utf8_lossy(&out.stdout);
    let want = format!("REPRODUCED {key}");
    if !text.lines().any(|l| l == want) {
        return Err(format!("replay of {path} in a fresh process did not reproduce {key}: {}", text.trim()));
    }
    Ok(path)
}

fn stats_note(before: usize, after: usize) {
    eprintln!("  minimised: {before} -> {after} non-zero decisions");
}

fn replay(scs: &[Scenario], exe: &std::path::Path, args: &[String]) -> i32 {
    let text = std::fs::read_to_string(&args[0])
        .unwrap_or_else(|e| crate::harness_error(&format!("cannot read {}: {e}", args[0])));
    let j = Json::parse(&text).unwrap_or_else(|e| crate::harness_error(&format!("bad replay file: {e}")));
    let full = j.get("scenario").and_then(|s| s.as_str()).unwrap_or("");
    let sc = match scs.iter().find(|s| s.full_name() == full) {
        Some(s) => s,
        None => {
            println!("WRONG-BINARY scenario {full} is not in this build configuration ({})", j.get("config").and_then(|c| c.as_str()).unwrap_or("?"));
            return 3;
        },
    };
    let key = j.get("key").and_then(|s| s.as_str()).unwrap_or("").to_string();
    let mode = j.get("mode").and_then(|s| s.as_str()).unwrap_or("tape");
    if mode == "values-in-child" {
        let mut values: [Vec<u64>; 3] = [Vec::new(), Vec::new(), Vec::new()];
        if let Some(arr) = j.get("values").and_then(|a| a.as_arr()) {
            for i in 0..3 {
                if let Some(st) = arr.get(i).and_then(|a| a.as_arr()) {
                    values[i] = st.iter().map(|v| v.as_u64().unwrap_or(0)).collect();
                }
            }
        }
        return match eval_subproc(exe, sc, &values) {
            Some(k) if k == key => {
                println!("REPRODUCED {key}");
                1
            },
            Some(k) => {
                println!("DIFFERENT {k}");
                1
            },
            None => {
                println!("NOT-REPRODUCED run completed without a violation");
                0
            },
        };
    }
    if mode == "seed" {
        // fatal violations (abort, hang): run from the seed in a child and watch it die
        let base = j.get("verif_seed").and_then(|v| v.as_u64()).unwrap_or(1);
        let idx = j.get("run_index").and_then(|v| v.as_u64()).unwrap_or(0);
        let mut child = Command::new(exe)
            .args(["worker", full, &base.to_string(), &idx.to_string(), &(idx + 1).to_string(), "0"])
            .stdin(Stdio::null())
            .stdout(Stdio::piped())
            .stderr(Stdio::null())
            .spawn()
            .unwrap();
        let start = Instant::now();
        loop {
            match child.try_wait() {
                Ok(Some(_)) => {
                    let mut out = String::new();
                    use std::io::Read;
                    let _ = child.stdout.take().unwrap().read_to_string(&mut out);
                    if out.lines().any(|l| l.starts_with("@A ")) {
                        if let Some(v) = out.lines().find(|l| l.starts_with("@V ")) {
                            println!("DIFFERENT {v}");
                        } else {
                            println!("NOT-REPRODUCED run completed");
                        }
                        return 0;
                    }
                    println!("REPRODUCED process-died|abort-or-signal");
                    return 1;
                },
                Ok(None) => {
                    if over_budget(child.id(), 0.0, start, sc.watchdog_s) {
                        let _ = child.kill();
                        let _ = child.wait();
                        println!("REPRODUCED hang|watchdog");
                        return 1;
                    }
                    std::thread::sleep(Duration::from_millis(10));
                },
                Err(_) => return 2,
            }
        }
    }
    let entries = replay_entries(j.get("tape").unwrap_or(&Json::Null));
    let r = run_one(sc, Tape::from_replay(entries), true, 0);
    if let Some(d) = r.diverged {
        println!("REPLAY-DIVERGED {d}");
        // a divergence means the code under test changed the decisions it asks for; the replay
        // is then only indicative
    }
    if let Some(h) = r.harness_panic {
        crate::harness_error(&format!("panic in harness code during replay: {h}"));
    }
    for e in r.stats.events.iter() {
        println!("  event: {e}");
    }
    match r.violation {
        Some(v) => {
            println!("violation: {} :: {}", v.key(), v.detail);
            if v.key() == key {
                println!("REPRODUCED {key}");
            } else {
                println!("DIFFERENT {}", v.key());
            }
            1
        },
        None => {
            println!("NOT-REPRODUCED run completed without a violation");
            0
        },
    }
}

// BATCH
// ================================================================================================

fn batch(scs: &[Scenario], exe: &std::path::Path, config: &str, args: &[String]) -> i32 {
    let property = &args[0];
    let tier = args.get(1).map(|s| s.as_str()).unwrap_or("quick");
    let out_path = args.get(2).cloned();
    let base = base_seed();
    let jobs: usize = std::env::var("VERIF_JOBS").ok().and_then(|j| j.parse().ok()).unwrap_or(16);
    let scale: f64 = std::env::var("VERIF_RUNS_SCALE").ok().and_then(|j| j.parse().ok()).unwrap_or(1.0);
    let known = load_known();
    std::env::set_var("VERIF_BATCH_TIER", tier);
    let t0 = Instant::now();
    let mine: Vec<&Scenario> = scs.iter().filter(|s| s.property == property).collect();
    if mine.is_empty() {
        crate::harness_error(&format!("no scenario for {property} in configuration {config}"));
    }
    println!("seed {base} property {property} tier {tier} config {config}");
    let mut per_scenario = Vec::new();
    let mut exit = 0;
    let mut known_hit: BTreeMap<String, u64> = BTreeMap::new();
    let mut violations = 0u64;
    for sc in mine {
        let total = ((if tier == "thorough" { sc.thorough } else { sc.quick }) as f64 * scale).ceil() as u64;
        if total == 0 {
            continue;
        }
        let ts = Instant::now();
        let agg = run_scenario(exe, sc, base, total, jobs);
        let secs = ts.elapsed().as_secs_f64();
        println!(
            "  {}: {} runs in {:.1}s, {} distinct non-trivial, {} violating runs",
            sc.full_name(),
            agg.runs,
            secs,
            agg.sigs.len(),
            agg.found.len()
        );
        // group by key
        let mut by_key: BTreeMap<String, Vec<&Found>> = BTreeMap::new();
        let fatal_runs = agg.found.iter().filter(|f| f.violation.oracle == "process-died" || f.violation.oracle == "hang").count();
        if fatal_runs > 0 && !sc.fatal_is_violation {
            println!("  {}: {} runs killed their worker (not judged by this property)", sc.full_name(), fatal_runs);
        }
        for f in agg.found.iter() {
            if !sc.fatal_is_violation && (f.violation.oracle == "process-died" || f.violation.oracle == "hang") {
                continue;
            }
            by_key.entry(f.violation.key()).or_default().push(f);
        }
        let mut reported = 0;
        for (key, fs) in by_key.iter() {
            if let Some(k) = known_match(&known, sc.property, key) {
                *known_hit.entry(k.key.clone()).or_insert(0) += fs.len() as u64;
                continue;
            }
            violations += fs.len() as u64;
            exit = 1;
            if reported >= 4 {
                println!("  (further distinct violation {key} in {} runs, first run {})", fs.len(), fs[0].idx);
                continue;
            }
            reported += 1;
            println!("  violation {key} in {} runs; first: run {} :: {}", fs.len(), fs[0].idx, fs[0].violation.detail);
            match write_replay(exe, sc, config, base, fs[0]) {
                Ok(path) => println!("VIOLATION property={} replay={}", sc.property, path),
                Err(e) => {
                    // a violation that does not reproduce is nondeterminism in the harness
                    crate::harness_error(&format!("violation {key} could not be turned into a replay: {e}"));
                },
            }
        }
        per_scenario.push((sc, agg, secs, total));
    }
    // known findings: one line per listed finding of this property
    for k in known.iter().filter(|k| &k.property == property) {
        let hits = known_hit.get(&k.key).copied().unwrap_or(0);
        println!("KNOWN-FINDING: property={} {} [key={}; reproduced in {} runs of this batch]", k.property, k.what, k.key, hits);
    }
    // partial evidence
    if let Some(path) = out_path {
        let mut scen = Vec::new();
        for (sc, agg, secs, total) in per_scenario.iter() {
            let samples: Vec<Json> = agg
                .samples
                .iter()
                .take(3)
                .map(|(i, s)| Json::obj().set("run", Json::Int(*i as i128)).set("case", Json::parse(s).unwrap_or(Json::str(s.clone()))))
                .collect();
            scen.push(
                Json::obj()
                    .set("scenario", Json::str(sc.full_name()))
                    .set("about", Json::str(sc.about))
                    .set("config", Json::str(config))
                    .set("runs_requested", Json::Int(*total as i128))
                    .set("runs", Json::Int(agg.runs as i128))
                    .set("wall_s", Json::Float(*secs))
                    .set("distinct_nontrivial", Json::Int(agg.sigs.len() as i128))
                    .set("sigs_hash", Json::Str(format!("{:x}", agg.sigs.iter().fold(0u64, |a, s| mix(&[a, *s])))))
                    .set("event_log_hash", Json::Str(format!("{:x}", agg.logsum)))
                    .set("counters", Json::from_map(&agg.counters))
                    .set("tape_draws", Json::obj()
                        .set("workload", Json::Int(agg.draws[0] as i128))
                        .set("schedule", Json::Int(agg.draws[1] as i128))
                        .set("faults", Json::Int(agg.draws[2] as i128)))
                    .set("largest_single_allocation", Json::Int(agg.max_alloc as i128))
                    .set("violating_runs", Json::Int(agg.found.len() as i128))
                    .set("samples", Json::Arr(samples)),
            );
        }
        let j = Json::obj()
            .set("property_id", Json::str(property.clone()))
            .set("tier", Json::str(tier))
            .set("seed", Json::Int(base as i128))
            .set("config", Json::str(config))
            .set("wall_s", Json::Float(t0.elapsed().as_secs_f64()))
            .set("violations", Json::Int(violations as i128))
            .set("known_findings_reproduced", Json::from_map(&known_hit))
            .set("scenarios", Json::Arr(scen));
        if let Err(e) = std::fs::write(&path, j.to_string_pretty()) {
            crate::harness_error(&format!("cannot write {path}: {e}"));
        }
    }
    exit
}

pub fn main(scs: Vec<Scenario>, config: &str) -> ! {
    crate::install_panic_hook();
    CONFIG.with(|c| *c.borrow_mut() = config.to_string());
    let args: Vec<String> = std::env::args().collect();
    let exe = std::env::current_exe().unwrap_or_else(|_| std::path::PathBuf::from(&args[0]));
    let cmd = args.get(1).map(|s| s.as_str()).unwrap_or("list");
    let rest = if args.len() > 2 { &args[2..] } else { &[] };
    let code = match cmd {
        "worker" => {
            worker(&scs, rest);
            0
        },
        "probe" => {
            probe(&scs, rest);
            0
        },
        "record" => {
            record(&scs, rest);
            0
        },
        "replay" => replay(&scs, &exe, rest),
        "batch" => batch(&scs, &exe, config, rest),
        "list" => {
            for s in scs.iter() {
                println!("{} quick={} thorough={} :: {}", s.full_name(), s.quick, s.thorough, s.about);
            }
            0
        },
        "props" => {
            let set: BTreeSet<&str> = scs.iter().map(|s| s.property).collect();
            for p in set {
                println!("{p}");
            }
            0
        },
        other => crate::harness_error(&format!("unknown command {other}")),
    };
    std::process::exit(code)
}
