//! The decision tape: the only source of choices in a simulated run.
//!
//! Three independent sub-streams (workload / schedule / faults), each with its own PRNG derived
//! from the run seed and its own record. Value 0 is the simplest choice at every site, so
//! "zero the tail" is always a legal simplification. In replay mode recorded values are fed back
//! instead of PRNG output; past the end of a recorded stream every draw is 0.

use std::cell::RefCell;

use crate::rng::{fnv, mix, Rng};

#[derive(Clone, Copy, Debug, PartialEq, Eq)]
pub enum Stream {
    Workload = 0,
    Schedule = 1,
    Faults = 2,
}

pub const STREAM_NAMES: [&str; 3] = ["workload", "schedule", "faults"];

#[derive(Clone, Debug)]
pub struct Rec {
    pub label: &'static str,
    pub bound: u64,
    pub value: u64,
}

#[derive(Clone, Debug)]
pub struct ReplayEntry {
    pub label_hash: u64,
    pub bound: u64,
    pub value: u64,
}

struct Sub {
    rng: Rng,
    replay: Option<Vec<ReplayEntry>>,
    pos: usize,
    rec: Vec<Rec>,
}

pub struct Tape {
    subs: [Sub; 3],
    /// strict replay: label/bound of a recorded entry must match the draw that consumes it
    strict: bool,
    pub diverged: Option<String>,
    /// recording can be switched off for the schedule stream when it gets long
    pub draws: [u64; 3],
    /// index of the run inside its batch (enumerating scenarios decode their case from it)
    pub run_index: u64,
}

/// What a finished run leaves behind.
#[derive(Clone, Debug, Default)]
pub struct TapeRecord {
    pub streams: [Vec<Rec>; 3],
}

impl TapeRecord {
    pub fn values(&self) -> [Vec<u64>; 3] {
        [
            self.streams[0].iter().map(|r| r.value).collect(),
            self.streams[1].iter().map(|r| r.value).collect(),
            self.streams[2].iter().map(|r| r.value).collect(),
        ]
    }
    pub fn to_replay(&self) -> [Vec<ReplayEntry>; 3] {
        let f = |v: &Vec<Rec>| {
            v.iter()
                .map(|r| ReplayEntry {
                    label_hash: fnv(r.label.as_bytes()),
                    bound: r.bound,
                    value: r.value,
                })
                .collect::<Vec<_>>()
        };
        [f(&self.streams[0]), f(&self.streams[1]), f(&self.streams[2])]
    }
    pub fn nonzero(&self) -> usize {
        self.streams.iter().map(|s| s.iter().filter(|r| r.value != 0).count()).sum()
    }
}

impl Tape {
    pub fn from_seed(run_seed: u64) -> Self {
        let mk = |i: u64| Sub {
            rng: Rng::new(mix(&[run_seed, 0x7a9e + i])),
            replay: None,
            pos: 0,
            rec: Vec::new(),
        };
        Tape { subs: [mk(0), mk(1), mk(2)], strict: false, diverged: None, draws: [0; 3], run_index: 0 }
    }

    /// Lenient replay from bare values: used by the minimiser. Values are reduced modulo the bound
    /// actually requested; past the end every draw is 0.
    pub fn from_values(values: [Vec<u64>; 3]) -> Self {
        let [a, b, c] = values;
        let mk = |v: Vec<u64>| Sub {
            rng: Rng::new(0),
            replay: Some(
                v.into_iter().map(|value| ReplayEntry { label_hash: 0, bound: 0, value }).collect(),
            ),
            pos: 0,
            rec: Vec::new(),
        };
        Tape { subs: [mk(a), mk(b), mk(c)], strict: false, diverged: None, draws: [0; 3], run_index: 0 }
    }

    /// Strict replay of a replay file.
    pub fn from_replay(entries: [Vec<ReplayEntry>; 3]) -> Self {
        let [a, b, c] = entries;
        let mk = |v: Vec<ReplayEntry>| Sub { rng: Rng::new(0), replay: Some(v), pos: 0, rec: Vec::new() };
        Tape { subs: [mk(a), mk(b), mk(c)], strict: true, diverged: None, draws: [0; 3], run_index: 0 }
    }

    pub fn with_index(mut self, idx: u64) -> Self {
        self.run_index = idx;
        self
    }

    /// A draw whose PRNG-mode value is the run index (modulo the bound) instead of a random
    /// number: lets a scenario enumerate a finite space completely, one case per run, while
    /// replay and minimisation still see an ordinary recorded decision.
    pub fn draw_indexed(&mut self, label: &'static str, bound: u64) -> u64 {
        let bound = bound.max(1);
        if self.subs[0].replay.is_some() {
            return self.draw(Stream::Workload, label, bound);
        }
        let value = self.run_index % bound;
        self.draws[0] += 1;
        self.subs[0].pos += 1;
        crate::alloc::exempt(|| self.subs[0].rec.push(Rec { label, bound, value }));
        trace(0, label, bound, value);
        value
    }

    pub fn draw(&mut self, stream: Stream, label: &'static str, bound: u64) -> u64 {
        let bound = bound.max(1);
        let idx = stream as usize;
        self.draws[idx] += 1;
        let strict = self.strict;
        let sub = &mut self.subs[idx];
        let value = match &sub.replay {
            None => sub.rng.below(bound),
            Some(list) => match list.get(sub.pos) {
                None => 0,
                Some(e) => {
                    if strict {
                        if e.bound != bound || e.label_hash != fnv(label.as_bytes()) {
                            if self.diverged.is_none() {
                                self.diverged = Some(format!(
                                    "stream {} pos {}: replay file has bound {} labelhash {:x}, run asked '{}' bound {}",
                                    STREAM_NAMES[idx], sub.pos, e.bound, e.label_hash, label, bound
                                ));
                            }
                            e.value % bound
                        } else {
                            e.value
                        }
                    } else {
                        e.value % bound
                    }
                },
            },
        };
        sub.pos += 1;
        crate::alloc::exempt(|| sub.rec.push(Rec { label, bound, value }));
        trace(idx, label, bound, value);
        value
    }

    pub fn finish(self) -> TapeRecord {
        let [a, b, c] = self.subs;
        TapeRecord { streams: [a.rec, b.rec, c.rec] }
    }
}

thread_local! {
    static TAPE: RefCell<Option<Tape>> = const { RefCell::new(None) };
    /// when set, every draw is appended to this file at once (unbuffered): lets the supervisor
    /// recover the decisions of a run that kills its own process
    static TRACE: RefCell<Option<std::fs::File>> = const { RefCell::new(None) };
}

pub fn trace_to(path: &str) {
    let f = std::fs::OpenOptions::new().create(true).write(true).truncate(true).open(path).ok();
    TRACE.with(|t| *t.borrow_mut() = f);
}

fn trace(stream: usize, label: &str, bound: u64, value: u64) {
    TRACE.with(|t| {
        if let Some(f) = t.borrow_mut().as_mut() {
            use std::io::Write;
            let _ = f.write_all(format!("{stream}\t{label}\t{bound}\t{value}\n").as_bytes());
        }
    });
}

pub fn install(t: Tape) {
    TAPE.with(|c| *c.borrow_mut() = Some(t));
}

pub fn take() -> Option<Tape> {
    TAPE.with(|c| c.borrow_mut().take())
}

pub fn installed() -> bool {
    TAPE.with(|c| c.borrow().is_some())
}

/// Draws from the installed tape. Without a tape (code running outside a simulated run, e.g.
/// during start-up) every draw is 0: in-order, one thread, no fault.
pub fn draw(stream: Stream, label: &'static str, bound: u64) -> u64 {
    TAPE.with(|c| match c.borrow_mut().as_mut() {
        Some(t) => t.draw(stream, label, bound),
        None => 0,
    })
}

/// enumerating draw: the run index modulo `bound` (see [Tape::draw_indexed])
pub fn indexed(label: &'static str, bound: u64) -> u64 {
    TAPE.with(|c| match c.borrow_mut().as_mut() {
        Some(t) => t.draw_indexed(label, bound),
        None => 0,
    })
}

/// workload draw in `0..bound`
pub fn w(label: &'static str, bound: u64) -> u64 {
    draw(Stream::Workload, label, bound)
}
/// schedule draw in `0..bound`
pub fn s(label: &'static str, bound: u64) -> u64 {
    draw(Stream::Schedule, label, bound)
}
/// fault draw in `0..bound`
pub fn f(label: &'static str, bound: u64) -> u64 {
    draw(Stream::Faults, label, bound)
}

/// `lo..=hi` from the workload stream
pub fn w_range(label: &'static str, lo: u64, hi: u64) -> u64 {
    lo + w(label, hi - lo + 1)
}

/// index into `weights` with probability proportional to the weight; index 0 should be the
/// simplest alternative.
pub fn weighted(stream: Stream, label: &'static str, weights: &[u64]) -> usize {
    let total: u64 = weights.iter().sum();
    let mut v = draw(stream, label, total);
    for (i, &wt) in weights.iter().enumerate() {
        if v < wt {
            return i;
        }
        v -= wt;
    }
    weights.len() - 1
}

/// picks one element of a slice (workload stream)
pub fn w_pick<T: Copy>(label: &'static str, items: &[T]) -> T {
    items[w(label, items.len() as u64) as usize]
}

/// 64 uniformly random bits, as two 32-bit draws so that each recorded value shrinks well
pub fn bits64(stream: Stream, label: &'static str) -> u64 {
    let lo = draw(stream, label, 1 << 32);
    let hi = draw(stream, label, 1 << 32);
    (hi << 32) | lo
}

/// A cheap PRNG forked off the tape: one draw seeds it. Used for bulk data (trace cells,
/// coefficient vectors) where recording each value would only bloat the tape; the fork is a pure
/// function of that one recorded draw.
pub fn fork(stream: Stream, label: &'static str) -> Rng {
    let seed = bits64(stream, label);
    Rng::new(mix(&[seed, 0x666f726b]))
}
