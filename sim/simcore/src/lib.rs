//! Core of the deterministic simulator: decision tape, per-run statistics, allocator seam,
//! batch driver with crash containment, minimiser, replay files, evidence.

pub mod alloc;
pub mod driver;
pub mod json;
pub mod rng;
pub mod stats;
pub mod tape;

use std::{
    cell::RefCell,
    panic::{catch_unwind, AssertUnwindSafe},
};

/// A property violation found by an oracle.
#[derive(Clone, Debug)]
pub struct Violation {
    /// which oracle fired (e.g. `panic`, `accepts-substituted-remainder`)
    pub oracle: String,
    /// where (normalised panic site, operation name, ...); part of the identity of the finding
    pub site: String,
    /// free text for the reader; not part of the identity
    pub detail: String,
}

impl Violation {
    pub fn new(oracle: &str, site: impl Into<String>, detail: impl Into<String>) -> Self {
        Violation { oracle: oracle.to_string(), site: site.into(), detail: detail.into() }
    }
    pub fn key(&self) -> String {
        format!("{}|{}", self.oracle, self.site)
    }
}

pub type Outcome = Result<(), Violation>;

/// A harness error (a bug in the machinery, or nondeterminism that escaped a seam). Never
/// reported as a property violation; the process exits with status 2.
pub fn harness_error(msg: &str) -> ! {
    eprintln!("HARNESS-ERROR: {msg}");
    println!("HARNESS-ERROR: {msg}");
    std::process::exit(2);
}

// PANIC CAPTURE
// ================================================================================================

/// where the code under test lives (`/repo/` unless a scratch copy is being checked)
pub fn repo_root() -> String {
    let mut r = std::env::var("VERIF_REPO_ROOT").unwrap_or_else(|_| "/repo".to_string());
    if !r.ends_with('/') {
        r.push('/');
    }
    r
}

#[derive(Clone, Debug, Default)]
pub struct PanicInfo {
    pub file: String,
    pub line: u32,
    pub msg: String,
}

thread_local! {
    static LAST_PANIC: RefCell<Option<PanicInfo>> = const { RefCell::new(None) };
}

pub fn install_panic_hook() {
    let loud = std::env::var("VERIF_DEBUG").is_ok();
    std::panic::set_hook(Box::new(move |info| {
        let (file, line) = info
            .location()
            .map(|l| (l.file().to_string(), l.line()))
            .unwrap_or_else(|| ("?".to_string(), 0));
        let msg = if let Some(s) = info.payload().downcast_ref::<&str>() {
            s.to_string()
        } else if let Some(s) = info.payload().downcast_ref::<String>() {
            s.clone()
        } else {
            "<non-string panic payload>".to_string()
        };
        if loud {
            eprintln!("panic at {file}:{line}: {msg}");
        }
        LAST_PANIC.with(|p| *p.borrow_mut() = Some(PanicInfo { file, line, msg }));
    }));
}

impl PanicInfo {
    /// true when the panic was raised from harness source (a bug in the machinery)
    pub fn in_harness(&self) -> bool {
        // the harness AIR checks what the library hands it against the `Air` trait's contract
        // (frame widths, result lengths); such a panic is the library's doing, not a harness bug
        if self.msg.starts_with("AIR-CONTRACT:") {
            return false;
        }
        // the rayon stand-in panics where rayon does (a zero chunk size): the caller's doing
        if self.file.contains("simrayon") && self.msg.contains("chunk_size must not be zero") {
            return false;
        }
        !(self.file.starts_with(&repo_root())
            || self.file.contains("/rustc/")
            || self.file.contains("/library/")
            || self.file.contains("/.cargo/registry/"))
    }

    /// file (relative to the repository) plus the message with all digit runs masked; line
    /// numbers are left out so that the key survives unrelated edits of the file.
    pub fn site(&self) -> String {
        let root = repo_root();
        let file = self.file.strip_prefix(root.as_str()).unwrap_or(&self.file);
        let file = match file.find("/library/") {
            Some(i) => &file[i + 1..],
            None => file,
        };
        let mut msg = String::new();
        let mut in_digits = false;
        for c in self.msg.chars() {
            if c.is_ascii_digit() {
                if !in_digits {
                    msg.push('#');
                }
                in_digits = true;
            } else {
                in_digits = false;
                msg.push(if c == '\n' || c == '|' { ' ' } else { c });
            }
            if msg.len() >= 110 {
                break;
            }
        }
        format!("{file}: {msg}")
    }
}

/// Runs `f`, converting a panic into `Err(PanicInfo)`. Library panics are data for the oracles;
/// a panic raised from harness source aborts the whole check with status 2.
pub fn guard<T>(f: impl FnOnce() -> T) -> Result<T, PanicInfo> {
    LAST_PANIC.with(|p| *p.borrow_mut() = None);
    match catch_unwind(AssertUnwindSafe(f)) {
        Ok(v) => Ok(v),
        Err(_) => {
            let info = LAST_PANIC.with(|p| p.borrow_mut().take()).unwrap_or_default();
            if info.in_harness() {
                harness_error(&format!(
                    "panic in harness code at {}:{}: {}",
                    info.file, info.line, info.msg
                ));
            }
            Err(info)
        },
    }
}

/// Like [guard], but a harness panic is returned instead of exiting (used by the driver itself).
pub fn guard_raw<T>(f: impl FnOnce() -> T) -> Result<T, PanicInfo> {
    LAST_PANIC.with(|p| *p.borrow_mut() = None);
    match catch_unwind(AssertUnwindSafe(f)) {
        Ok(v) => Ok(v),
        Err(_) => Err(LAST_PANIC.with(|p| p.borrow_mut().take()).unwrap_or_default()),
    }
}

#[macro_export]
macro_rules! fail {
    ($oracle:expr, $site:expr, $($arg:tt)*) => {
        return Err($crate::Violation::new($oracle, $site, format!($($arg)*)))
    };
}
