//! Minimal JSON value, writer and parser (no external dependency).

use std::collections::BTreeMap;

#[derive(Clone, Debug, PartialEq)]
pub enum Json {
    Null,
    Bool(bool),
    Int(i128),
    Float(f64),
    Str(String),
    Arr(Vec<Json>),
    Obj(Vec<(String, Json)>),
}

impl Json {
    pub fn obj() -> Json {
        Json::Obj(Vec::new())
    }
    pub fn set(mut self, k: &str, v: Json) -> Json {
        if let Json::Obj(ref mut items) = self {
            if let Some(slot) = items.iter_mut().find(|(kk, _)| kk == k) {
                slot.1 = v;
            } else {
                items.push((k.to_string(), v));
            }
        }
        self
    }
    pub fn get(&self, k: &str) -> Option<&Json> {
        match self {
            Json::Obj(items) => items.iter().find(|(kk, _)| kk == k).map(|(_, v)| v),
            _ => None,
        }
    }
    pub fn as_str(&self) -> Option<&str> {
        match self {
            Json::Str(s) => Some(s),
            _ => None,
        }
    }
    pub fn as_u64(&self) -> Option<u64> {
        match self {
            Json::Int(i) if *i >= 0 && *i <= u64::MAX as i128 => Some(*i as u64),
            _ => None,
        }
    }
    pub fn as_arr(&self) -> Option<&[Json]> {
        match self {
            Json::Arr(a) => Some(a),
            _ => None,
        }
    }
    pub fn from_map(m: &BTreeMap<String, u64>) -> Json {
        Json::Obj(m.iter().map(|(k, v)| (k.clone(), Json::Int(*v as i128))).collect())
    }
    pub fn str(s: impl Into<String>) -> Json {
        Json::Str(s.into())
    }
    pub fn int(i: impl Into<i128>) -> Json {
        Json::Int(i.into())
    }

    pub fn to_string_pretty(&self) -> String {
        let mut out = String::new();
        self.write(&mut out, 0, true);
        out.push('\n');
        out
    }
    pub fn to_string_compact(&self) -> String {
        let mut out = String::new();
        self.write(&mut out, 0, false);
        out
    }

    fn write(&self, out: &mut String, indent: usize, pretty: bool) {
        match self {
            Json::Null => out.push_str("null"),
            Json::Bool(b) => out.push_str(if *b { "true" } else { "false" }),
            Json::Int(i) => out.push_str(&i.to_string()),
            Json::Float(f) => {
                if f.is_finite() {
                    let s = format!("{f}");
                    out.push_str(&s);
                    if !s.contains('.') && !s.contains('e') {
                        out.push_str(".0");
                    }
                } else {
                    out.push_str("0.0");
                }
            },
            Json::Str(s) => write_str(out, s),
            Json::Arr(a) => {
                // arrays of scalars stay on one line
                let scalar = a.iter().all(|v| !matches!(v, Json::Arr(_) | Json::Obj(_)));
                out.push('[');
                for (i, v) in a.iter().enumerate() {
                    if i > 0 {
                        out.push(',');
                    }
                    if pretty && !scalar {
                        out.push('\n');
                        out.push_str(&" ".repeat(indent + 1));
                    }
                    v.write(out, indent + 1, pretty);
                }
                if pretty && !scalar && !a.is_empty() {
                    out.push('\n');
                    out.push_str(&" ".repeat(indent));
                }
                out.push(']');
            },
            Json::Obj(items) => {
                out.push('{');
                for (i, (k, v)) in items.iter().enumerate() {
                    if i > 0 {
                        out.push(',');
                    }
                    if pretty {
                        out.push('\n');
                        out.push_str(&" ".repeat(indent + 1));
                    }
                    write_str(out, k);
                    out.push(':');
                    if pretty {
                        out.push(' ');
                    }
                    v.write(out, indent + 1, pretty);
                }
                if pretty && !items.is_empty() {
                    out.push('\n');
                    out.push_str(&" ".repeat(indent));
                }
                out.push('}');
            },
        }
    }

    pub fn parse(text: &str) -> Result<Json, String> {
        let mut p = Parser { b: text.as_bytes(), i: 0 };
        let v = p.value()?;
        p.ws();
        if p.i != p.b.len() {
            return Err(format!("trailing data at {}", p.i));
        }
        Ok(v)
    }
}

fn write_str(out: &mut String, s: &str) {
    out.push('"');
    for c in s.chars() {
        match c {
            '"' => out.push_str("\\\""),
            '\\' => out.push_str("\\\\"),
            '\n' => out.push_str("\\n"),
            '\r' => out.push_str("\\r"),
            '\t' => out.push_str("\\t"),
            c if (c as u32) < 0x20 => out.push_str(&format!("\\u{:04x}", c as u32)),
            c => out.push(c),
        }
    }
    out.push('"');
}

struct Parser<'a> {
    b: &'a [u8],
    i: usize,
}

impl Parser<'_> {
    fn ws(&mut self) {
        while self.i < self.b.len() && (self.b[self.i] as char).is_ascii_whitespace() {
            self.i += 1;
        }
    }
    fn value(&mut self) -> Result<Json, String> {
        self.ws();
        if self.i >= self.b.len() {
            return Err("unexpected end".into());
        }
        match self.b[self.i] {
            b'{' => {
                self.i += 1;
                let mut items = Vec::new();
                loop {
                    self.ws();
                    if self.peek() == Some(b'}') {
                        self.i += 1;
                        break;
                    }
                    let k = match self.value()? {
                        Json::Str(s) => s,
                        _ => return Err("object key must be a string".into()),
                    };
                    self.ws();
                    if self.peek() != Some(b':') {
                        return Err(format!("expected ':' at {}", self.i));
                    }
                    self.i += 1;
                    let v = self.value()?;
                    items.push((k, v));
                    self.ws();
                    match self.peek() {
                        Some(b',') => self.i += 1,
                        Some(b'}') => {
                            self.i += 1;
                            break;
                        },
                        _ => return Err(format!("expected ',' or '}}' at {}", self.i)),
                    }
                }
                Ok(Json::Obj(items))
            },
            b'[' => {
                self.i += 1;
                let mut items = Vec::new();
                loop {
                    self.ws();
                    if self.peek() == Some(b']') {
                        self.i += 1;
                        break;
                    }
                    items.push(self.value()?);
                    self.ws();
                    match self.peek() {
                        Some(b',') => self.i += 1,
                        Some(b']') => {
                            self.i += 1;
                            break;
                        },
                        _ => return Err(format!("expected ',' or ']' at {}", self.i)),
                    }
                }
                Ok(Json::Arr(items))
            },
            b'"' => {
                self.i += 1;
                let mut s = String::new();
                loop {
                    if self.i >= self.b.len() {
                        return Err("unterminated string".into());
                    }
                    let c = self.b[self.i];
                    self.i += 1;
                    match c {
                        b'"' => break,
                        b'\\' => {
                            let e = *self.b.get(self.i).ok_or("bad escape")?;
                            self.i += 1;
                            match e {
                                b'n' => s.push('\n'),
                                b'r' => s.push('\r'),
                                b't' => s.push('\t'),
                                b'b' => s.push('\u{8}'),
                                b'f' => s.push('\u{c}'),
                                b'u' => {
                                    let hex = std::str::from_utf8(
                                        self.b.get(self.i..self.i + 4).ok_or("bad \\u")?,
                                    )
                                    .map_err(|e| e.to_string())?;
                                    let cp = u32::from_str_radix(hex, 16).map_err(|e| e.to_string())?;
                                    s.push(char::from_u32(cp).unwrap_or('?'));
                                    self.i += 4;
                                },
                                other => s.push(other as char),
                            }
                        },
                        _ => {
                            // copy a full utf-8 sequence
                            let start = self.i - 1;
                            let len = match c {
                                0..=0x7f => 1,
                                0xc0..=0xdf => 2,
                                0xe0..=0xef => 3,
                                _ => 4,
                            };
                            let end = (start + len).min(self.b.len());
                            s.push_str(&String::from_utf8_lossy(&self.b[start..end]));
                            self.i = end;
                        },
                    }
                }
                Ok(Json::Str(s))
            },
            b't' if self.b[self.i..].starts_with(b"true") => {
                self.i += 4;
                Ok(Json::Bool(true))
            },
            b'f' if self.b[self.i..].starts_with(b"false") => {
                self.i += 5;
                Ok(Json::Bool(false))
            },
            b'n' if self.b[self.i..].starts_with(b"null") => {
                self.i += 4;
                Ok(Json::Null)
            },
            _ => {
                let start = self.i;
                while self.i < self.b.len()
                    && matches!(self.b[self.i], b'-' | b'+' | b'.' | b'e' | b'E' | b'0'..=b'9')
                {
                    self.i += 1;
                }
                let t = std::str::from_utf8(&self.b[start..self.i]).map_err(|e| e.to_string())?;
                if t.is_empty() {
                    return Err(format!("unexpected byte at {}", start));
                }
                if let Ok(i) = t.parse::<i128>() {
                    Ok(Json::Int(i))
                } else {
                    t.parse::<f64>().map(Json::Float).map_err(|e| e.to_string())
                }
            },
        }
    }
    fn peek(&self) -> Option<u8> {
        self.b.get(self.i).copied()
    }
}
