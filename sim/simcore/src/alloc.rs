//! The allocator seam. Every fresh block is filled with a per-run poison byte, so that a slot a
//! buggy path forgets to write (winterfell allocates many buffers with `uninit_vector`) holds a
//! deterministic, recognisably wrong value instead of whatever the heap held before. The largest
//! single request is tracked per run, and a request above the cap is refused (null), which makes
//! the process abort exactly as a real oversized allocation does - the supervisor attributes the
//! abort to the run in flight.

use std::{
    alloc::{GlobalAlloc, Layout, System},
    cell::Cell,
};

pub struct SimAlloc;

thread_local! {
    static POISON: Cell<u8> = const { Cell::new(0xA5) };
    static MAX_REQ: Cell<usize> = const { Cell::new(0) };
    static CAP: Cell<usize> = const { Cell::new(usize::MAX) };
    static TOTAL: Cell<u64> = const { Cell::new(0) };
    static RUN_CAP: Cell<usize> = const { Cell::new(usize::MAX) };
}

pub const DEFAULT_CAP: usize = 1 << 30;

pub fn begin_run(poison: u8, cap: usize) {
    let _ = POISON.try_with(|p| p.set(poison));
    let _ = MAX_REQ.try_with(|m| m.set(0));
    let _ = TOTAL.try_with(|m| m.set(0));
    let _ = CAP.try_with(|c| c.set(cap));
    let _ = RUN_CAP.try_with(|c| c.set(cap));
}

/// (largest single request, total bytes requested) since `begin_run`
pub fn end_run() -> (usize, u64) {
    let m = MAX_REQ.try_with(|m| m.get()).unwrap_or(0);
    let t = TOTAL.try_with(|m| m.get()).unwrap_or(0);
    let _ = CAP.try_with(|c| c.set(usize::MAX));
    (m, t)
}

/// Runs `f` with the single-request cap lowered to `cap` (never raised). Used around decoding of
/// untrusted bytes, where a request far above the input length is the failure being looked for.
pub fn scoped_cap<T>(cap: usize, f: impl FnOnce() -> T) -> T {
    let old = CAP.try_with(|c| c.get()).unwrap_or(usize::MAX);
    let _ = CAP.try_with(|c| c.set(cap.min(old)));
    let r = f();
    let _ = CAP.try_with(|c| c.set(old));
    r
}

/// Runs `f` (harness bookkeeping, e.g. the growth of the decision record) under the run-level cap
/// even inside a [scoped_cap] region, so that the harness's own buffers are never blamed on the
/// code under test.
#[inline]
pub fn exempt<T>(f: impl FnOnce() -> T) -> T {
    let old = CAP.try_with(|c| c.get()).unwrap_or(usize::MAX);
    let run = RUN_CAP.try_with(|c| c.get()).unwrap_or(usize::MAX);
    let _ = CAP.try_with(|c| c.set(run));
    let r = f();
    let _ = CAP.try_with(|c| c.set(old));
    r
}

#[inline]
fn note(size: usize) -> bool {
    let _ = MAX_REQ.try_with(|m| {
        if size > m.get() {
            m.set(size)
        }
    });
    let _ = TOTAL.try_with(|t| t.set(t.get().wrapping_add(size as u64)));
    CAP.try_with(|c| size <= c.get()).unwrap_or(true)
}

unsafe impl GlobalAlloc for SimAlloc {
    unsafe fn alloc(&self, layout: Layout) -> *mut u8 {
        if !note(layout.size()) {
            return std::ptr::null_mut();
        }
        let p = System.alloc(layout);
        if !p.is_null() {
            let b = POISON.try_with(|p| p.get()).unwrap_or(0xA5);
            std::ptr::write_bytes(p, b, layout.size());
        }
        p
    }
    unsafe fn dealloc(&self, ptr: *mut u8, layout: Layout) {
        System.dealloc(ptr, layout)
    }
    unsafe fn alloc_zeroed(&self, layout: Layout) -> *mut u8 {
        if !note(layout.size()) {
            return std::ptr::null_mut();
        }
        System.alloc_zeroed(layout)
    }
    unsafe fn realloc(&self, ptr: *mut u8, layout: Layout, new_size: usize) -> *mut u8 {
        if !note(new_size) {
            return std::ptr::null_mut();
        }
        let p = System.realloc(ptr, layout, new_size);
        if !p.is_null() && new_size > layout.size() {
            let b = POISON.try_with(|p| p.get()).unwrap_or(0xA5);
            std::ptr::write_bytes(p.add(layout.size()), b, new_size - layout.size());
        }
        p
    }
}
