//! xoshiro256** seeded through splitmix64. Implemented here so that the stream produced by a
//! seed can never change with a dependency upgrade.

#[derive(Clone, Debug)]
pub struct Rng {
    s: [u64; 4],
}

pub fn splitmix64(state: &mut u64) -> u64 {
    *state = state.wrapping_add(0x9e37_79b9_7f4a_7c15);
    let mut z = *state;
    z = (z ^ (z >> 30)).wrapping_mul(0xbf58_476d_1ce4_e5b9);
    z = (z ^ (z >> 27)).wrapping_mul(0x94d0_49bb_1331_11eb);
    z ^ (z >> 31)
}

/// Mixes several integers into one 64-bit value (order-sensitive).
pub fn mix(parts: &[u64]) -> u64 {
    let mut st = 0x243f_6a88_85a3_08d3u64;
    let mut acc = 0u64;
    for &p in parts {
        st ^= p;
        acc = acc.rotate_left(17) ^ splitmix64(&mut st);
    }
    splitmix64(&mut acc)
}

/// FNV-1a over bytes; used for labels and signatures.
pub fn fnv(bytes: &[u8]) -> u64 {
    let mut h = 0xcbf2_9ce4_8422_2325u64;
    for &b in bytes {
        h ^= b as u64;
        h = h.wrapping_mul(0x100_0000_01b3);
    }
    h
}

impl Rng {
    pub fn new(seed: u64) -> Self {
        let mut st = seed;
        let s = [
            splitmix64(&mut st),
            splitmix64(&mut st),
            splitmix64(&mut st),
            splitmix64(&mut st),
        ];
        Rng { s }
    }

    pub fn next_u64(&mut self) -> u64 {
        let result = self.s[1].wrapping_mul(5).rotate_left(7).wrapping_mul(9);
        let t = self.s[1] << 17;
        self.s[2] ^= self.s[0];
        self.s[3] ^= self.s[1];
        self.s[1] ^= self.s[2];
        self.s[0] ^= self.s[3];
        self.s[2] ^= t;
        self.s[3] = self.s[3].rotate_left(45);
        result
    }

    /// Uniform value in `0..bound` (`bound >= 1`), by rejection so that it is unbiased.
    pub fn below(&mut self, bound: u64) -> u64 {
        debug_assert!(bound >= 1);
        if bound <= 1 {
            return 0;
        }
        let zone = u64::MAX - (u64::MAX % bound) - 1;
        loop {
            let v = self.next_u64();
            if v <= zone || zone == u64::MAX {
                return v % bound;
            }
        }
    }
}
