//! GenAir: a randomised AIR family used by the protocol simulations.
//!
//! The structure of an instance (transition rules per column, periodic columns, assertions,
//! auxiliary segment) is derived deterministically from a 64-bit structure seed carried in the
//! trace metadata together with the trace dimensions found in `TraceInfo`, so that the verifier's
//! `Air::new` rebuilds exactly the AIR the prover used from what the proof carries. `GenAir::new`
//! is total: whatever `TraceInfo` it is given (also an attacker-chosen one) it produces a
//! well-formed AIR for those dimensions.

use air::{
    Air, AirContext, Assertion, AuxRandElements, EvaluationFrame, ProofOptions, TraceInfo,
    TransitionConstraintDegree,
};
use math::{ExtensibleField, ExtensionOf, FieldElement, StarkField, ToElements};
use prover::{matrix::ColMatrix, Trace};
use simcore::rng::{mix, Rng};

use crate::fields::rand_elem;

// SPEC
// ================================================================================================

#[derive(Clone, Debug)]
pub enum ColRule<B> {
    /// next = cur^d + sum c_k * cur[k] + [periodic p(x)] + [periodic q(x) * cur[m]] + konst
    Power {
        degree: usize,
        deps: Vec<(usize, B)>,
        konst: B,
        add_periodic: Option<usize>,
        mul_periodic: Option<(usize, usize)>,
    },
    /// next = cur + p(x), with the cycle values of p summing to zero: the column is periodic
    PeriodicSum { periodic: usize },
}

#[derive(Clone, Debug)]
pub enum AuxRule {
    /// next = cur * (main[k] + r)
    Product { main_col: usize, rand: usize },
    /// next = cur + r * main[k]
    Sum { main_col: usize, rand: usize },
}

#[derive(Clone, Debug)]
pub enum AssertKind {
    Single { step: usize },
    Periodic { first: usize, stride: usize },
    Sequence { first: usize, stride: usize },
}

#[derive(Clone, Debug)]
pub struct AssertSpec {
    pub column: usize,
    pub kind: AssertKind,
}

impl AssertSpec {
    /// the steps this assertion constrains (documented arithmetic progression)
    pub fn steps(&self, n: usize) -> Vec<usize> {
        match self.kind {
            AssertKind::Single { step } => vec![step],
            AssertKind::Periodic { first, stride } | AssertKind::Sequence { first, stride } => {
                (0..n / stride).map(|k| first + k * stride).collect()
            },
        }
    }
    /// number of values carried in the public inputs
    pub fn num_values(&self, n: usize) -> usize {
        match self.kind {
            AssertKind::Single { .. } | AssertKind::Periodic { .. } => 1,
            AssertKind::Sequence { stride, .. } => n / stride,
        }
    }
}

#[derive(Clone, Debug)]
pub struct Spec<B: StarkField> {
    pub seed: u64,
    pub main_width: usize,
    pub aux_width: usize,
    pub num_rands: usize,
    pub n: usize,
    pub exemptions: usize,
    pub rules: Vec<ColRule<B>>,
    /// cycle values of the periodic columns
    pub periodic: Vec<Vec<B>>,
    pub aux_rules: Vec<AuxRule>,
    pub assertions: Vec<AssertSpec>,
    /// per main column: may the exempt tail hold arbitrary values?
    pub free_tail: Vec<bool>,
}

/// shape knobs that travel in the metadata next to the structure seed
#[derive(Clone, Copy, Debug, PartialEq, Eq)]
pub struct Knobs {
    pub seed: u64,
    /// largest transition degree (1..=8)
    pub max_degree: u8,
    /// requested number of transition exemptions (clamped to what the AIR allows)
    pub exemptions: u16,
    /// 0 none, 1 some, 2 many / long assertions
    pub assertion_density: u8,
    /// number of periodic columns 0..=3
    pub periodic_cols: u8,
    /// every column constant: no trace polynomial has full degree (the prover's own sanity
    /// assertion on the DEEP composition degree refuses such traces)
    pub degenerate: bool,
}

pub const META_LEN: usize = 14;

impl Knobs {
    pub fn to_meta(&self, pad: usize) -> Vec<u8> {
        let mut m = Vec::with_capacity(META_LEN + pad);
        m.extend_from_slice(&self.seed.to_le_bytes());
        m.push(self.max_degree);
        m.extend_from_slice(&self.exemptions.to_le_bytes());
        m.push(self.assertion_density);
        m.push(self.periodic_cols);
        m.push(self.degenerate as u8);
        for i in 0..pad {
            m.push((i as u8).wrapping_mul(37).wrapping_add(1));
        }
        m
    }
    /// total: any byte string yields knobs
    pub fn from_meta(meta: &[u8]) -> Self {
        let g = |i: usize| meta.get(i).copied().unwrap_or(0);
        let mut s = [0u8; 8];
        for (i, b) in s.iter_mut().enumerate() {
            *b = g(i);
        }
        Knobs {
            seed: u64::from_le_bytes(s),
            max_degree: g(8).clamp(1, 8),
            exemptions: u16::from_le_bytes([g(9), g(10)]).max(1),
            assertion_density: g(11) % 3,
            periodic_cols: g(12) % 4,
            degenerate: g(13) == 1,
        }
    }
}

fn pick_degree(rng: &mut Rng, max: usize) -> usize {
    const TABLE: [usize; 14] = [1, 1, 1, 2, 2, 2, 2, 3, 3, 4, 5, 6, 7, 8];
    loop {
        let d = TABLE[rng.below(TABLE.len() as u64) as usize];
        if d <= max {
            return d;
        }
    }
}

impl<B: StarkField> Spec<B> {
    /// derives the instance structure from the knobs and the trace dimensions
    pub fn derive(knobs: &Knobs, info: &TraceInfo) -> Self {
        let main_width = info.main_trace_width().max(1);
        let aux_width = info.aux_segment_width();
        let num_rands = info.get_num_aux_segment_rand_elements();
        let n = info.length();
        let mut rng = Rng::new(mix(&[knobs.seed, main_width as u64, aux_width as u64, n as u64, 0x6a1]));
        // a trace length no honest instance of this harness uses can only come from an
        // attacker-edited proof: keep the AIR small then (GenAir::new must stay cheap and total)
        let oversized = n > (1 << 16);
        // periodic columns: cycle lengths 2..=n
        let max_log = if oversized { 8 } else { n.ilog2().max(1) };
        let mut periodic: Vec<Vec<B>> = Vec::new();
        for _ in 0..knobs.periodic_cols {
            let c = 1usize << (1 + rng.below(max_log as u64) as u32).min(max_log);
            let mut vals: Vec<B> = (0..c).map(|_| rand_elem::<B>(&mut rng)).collect();
            // cycle values sum to zero so that a running sum over a cycle returns to its start
            let s = vals[..c - 1].iter().fold(B::ZERO, |a, &v| a + v);
            vals[c - 1] = -s;
            periodic.push(vals);
        }
        let max_degree = knobs.max_degree.clamp(1, 8) as usize;
        let mut rules = Vec::with_capacity(main_width);
        let mut free_tail = Vec::with_capacity(main_width);
        for j in 0..main_width {
            if knobs.degenerate {
                rules.push(ColRule::Power { degree: 1, deps: Vec::new(), konst: B::ZERO, add_periodic: None, mul_periodic: None });
                free_tail.push(false);
                continue;
            }
            // column 0 always gets a power rule (a trace polynomial of full degree)
            if j > 0 && !periodic.is_empty() && rng.below(5) == 0 {
                let p = rng.below(periodic.len() as u64) as usize;
                rules.push(ColRule::PeriodicSum { periodic: p });
                free_tail.push(false);
                continue;
            }
            let degree = pick_degree(&mut rng, max_degree);
            let ndeps = if main_width > 1 { rng.below(3) as usize } else { 0 };
            let mut deps = Vec::new();
            for _ in 0..ndeps {
                let k = rng.below(main_width as u64) as usize;
                if k != j && !deps.iter().any(|(kk, _)| *kk == k) {
                    deps.push((k, rand_elem::<B>(&mut rng)));
                }
            }
            // a linear rule without any other term would make the column constant
            let bare = degree == 1 && deps.is_empty();
            let konst = if bare || rng.below(2) == 0 { crate::fields::rand_nonzero::<B>(&mut rng) } else { B::ZERO };
            // an additive periodic term never raises the degree above the power term
            let add_periodic =
                if !periodic.is_empty() && rng.below(4) == 0 { Some(rng.below(periodic.len() as u64) as usize) } else { None };
            // a periodic value multiplying a trace cell is only used with a linear power term, so
            // that the declared degree (with cycles) is exact
            let mul_periodic = if degree == 1 && !periodic.is_empty() && rng.below(4) == 0 {
                Some((rng.below(periodic.len() as u64) as usize, rng.below(main_width as u64) as usize))
            } else {
                None
            };
            rules.push(ColRule::Power { degree, deps, konst, add_periodic, mul_periodic });
            free_tail.push(true);
        }
        // auxiliary segment
        let mut aux_rules = Vec::new();
        for i in 0..aux_width {
            let main_col = rng.below(main_width as u64) as usize;
            let rand = if num_rands == 0 { 0 } else { i % num_rands };
            if rng.below(2) == 0 {
                aux_rules.push(AuxRule::Product { main_col, rand });
            } else {
                aux_rules.push(AuxRule::Sum { main_col, rand });
            }
        }
        let mut spec = Spec {
            seed: knobs.seed,
            main_width,
            aux_width,
            num_rands,
            n,
            exemptions: 1,
            rules,
            periodic,
            aux_rules,
            assertions: Vec::new(),
            free_tail,
        };
        // exemptions: the requested number, clamped to what AirContext accepts
        spec.exemptions = (knobs.exemptions as usize).clamp(1, spec.max_exemptions());
        // assertions, overlap-free by construction: at most one multi-step assertion per column,
        // single assertions only on cells it does not cover
        let mut assertions = vec![AssertSpec { column: 0, kind: AssertKind::Single { step: 0 } }];
        let mut multi: Vec<Option<(usize, usize)>> = vec![None; main_width];
        if knobs.assertion_density > 0 && !oversized {
            for j in 0..main_width {
                let dice = rng.below(if knobs.assertion_density == 2 { 3 } else { 8 });
                if j == 0 || dice != 0 {
                    continue;
                }
                match &spec.rules[j] {
                    ColRule::PeriodicSum { periodic } => {
                        let c = spec.periodic[*periodic].len();
                        // stride = a multiple of the cycle length
                        let room = (n / c).ilog2();
                        let stride = c << rng.below(room as u64 + 1);
                        // half of the multi-step assertions start at step 0 (where single assertions cluster too)
                        let first = if rng.below(2) == 0 { 0 } else { rng.below(stride as u64) as usize };
                        assertions.push(AssertSpec { column: j, kind: AssertKind::Periodic { first, stride } });
                        multi[j] = Some((first, stride));
                    },
                    ColRule::Power { .. } => {
                        // sequence assertion: n / stride values (long ones included)
                        let max_vals_log = n.ilog2() - 1; // stride >= 2
                        let vals_log = if knobs.assertion_density == 2 { rng.below(max_vals_log as u64 + 1) } else { rng.below(max_vals_log.min(4) as u64 + 1) } as u32;
                        let stride = n >> vals_log;
                        if stride < 2 || n / stride < 2 {
                            continue;
                        }
                        // half of the multi-step assertions start at step 0 (where single assertions cluster too)
                        let first = if rng.below(2) == 0 { 0 } else { rng.below(stride as u64) as usize };
                        assertions.push(AssertSpec { column: j, kind: AssertKind::Sequence { first, stride } });
                        multi[j] = Some((first, stride));
                    },
                }
            }
            // single assertions on free cells
            let singles = rng.below(if knobs.assertion_density == 2 { 12 } else { 4 }) as usize;
            for _ in 0..singles {
                let j = rng.below(main_width as u64) as usize;
                let step = match rng.below(4) {
                    0 => 0,
                    1 => n - 1,
                    2 => n - spec.exemptions.min(n - 1),
                    _ => rng.below(n as u64) as usize,
                };
                if let Some((first, stride)) = multi[j] {
                    if step % stride == first {
                        continue;
                    }
                }
                let dup = assertions
                    .iter()
                    .any(|a| a.column == j && matches!(a.kind, AssertKind::Single { step: s } if s == step));
                if !dup {
                    assertions.push(AssertSpec { column: j, kind: AssertKind::Single { step } });
                }
            }
        }
        spec.assertions = assertions;
        spec
    }

    pub fn degrees(&self) -> Vec<TransitionConstraintDegree> {
        self.rules
            .iter()
            .map(|r| match r {
                ColRule::Power { degree, mul_periodic, .. } => match mul_periodic {
                    Some((p, _)) if *degree == 1 => {
                        TransitionConstraintDegree::with_cycles(1, vec![self.periodic[*p].len()])
                    },
                    _ => TransitionConstraintDegree::new(*degree),
                },
                ColRule::PeriodicSum { .. } => TransitionConstraintDegree::new(1),
            })
            .collect()
    }

    pub fn aux_degrees(&self) -> Vec<TransitionConstraintDegree> {
        self.aux_rules
            .iter()
            .map(|r| match r {
                AuxRule::Product { .. } => TransitionConstraintDegree::new(2),
                AuxRule::Sum { .. } => TransitionConstraintDegree::new(1),
            })
            .collect()
    }

    /// smallest blowup factor the AIR context accepts for this instance
    pub fn min_blowup(&self) -> usize {
        self.degrees()
            .iter()
            .chain(self.aux_degrees().iter())
            .map(|d| d.min_blowup_factor())
            .max()
            .unwrap_or(2)
    }

    /// largest exemption count `AirContext::set_num_transition_exemptions` documents as valid
    pub fn max_exemptions(&self) -> usize {
        let n = self.n;
        let ce = n * self.min_blowup();
        let mut m = n / 2 + 1;
        for d in self.degrees().iter().chain(self.aux_degrees().iter()) {
            let eval_degree = d.get_evaluation_degree(n);
            m = m.min(ce - 1 + n - eval_degree);
        }
        m.max(1)
    }

    /// total number of asserted values carried in the public inputs
    pub fn num_public_values(&self) -> usize {
        self.assertions.iter().map(|a| a.num_values(self.n)).sum()
    }

    /// value of periodic column `p` at `step`
    pub fn periodic_at(&self, p: usize, step: usize) -> B {
        let v = &self.periodic[p];
        v[step % v.len()]
    }

    /// the transition rule of column `j`: the value `next[j]` must take
    pub fn next_value<E: FieldElement<BaseField = B>>(&self, j: usize, cur: &[E], periodic: &[E]) -> E {
        match &self.rules[j] {
            ColRule::Power { degree, deps, konst, add_periodic, mul_periodic } => {
                let mut v = cur[j];
                let base = cur[j];
                for _ in 1..*degree {
                    v *= base;
                }
                for (k, c) in deps {
                    v += cur[*k] * E::from(*c);
                }
                if let Some(p) = add_periodic {
                    v += periodic[*p];
                }
                if let Some((p, m)) = mul_periodic {
                    v += periodic[*p] * cur[*m];
                }
                v + E::from(*konst)
            },
            ColRule::PeriodicSum { periodic: p } => cur[j] + periodic[*p],
        }
    }

    /// the auxiliary rule of column `i`
    pub fn aux_next_value<F, E>(&self, i: usize, main_cur: &[F], aux_cur: &[E], rands: &[E]) -> E
    where
        F: FieldElement<BaseField = B>,
        E: FieldElement<BaseField = B> + ExtensionOf<F>,
    {
        let r = |idx: usize| rands.get(idx).copied().unwrap_or(E::ONE);
        match &self.aux_rules[i] {
            AuxRule::Product { main_col, rand } => aux_cur[i] * (E::from(main_cur[*main_col]) + r(*rand)),
            AuxRule::Sum { main_col, rand } => aux_cur[i] + r(*rand) * E::from(main_cur[*main_col]),
        }
    }

    /// asserted initial value of auxiliary column `i`
    pub fn aux_init<E: FieldElement<BaseField = B>>(&self, i: usize, rands: &[E]) -> E {
        let r = rands.get(i % rands.len().max(1)).copied().unwrap_or(E::ONE);
        match &self.aux_rules[i] {
            AuxRule::Product { .. } => r + E::ONE,
            AuxRule::Sum { .. } => r,
        }
    }
}

// PUBLIC INPUTS
// ================================================================================================

#[derive(Clone, Debug, PartialEq, Eq)]
pub struct GenInputs<B: StarkField> {
    /// asserted values, in the order of the spec's assertion list
    pub values: Vec<B>,
}

impl<B: StarkField> ToElements<B> for GenInputs<B> {
    fn to_elements(&self) -> Vec<B> {
        self.values.clone()
    }
}

// AIR
// ================================================================================================

pub struct GenAir<B: StarkField> {
    context: AirContext<B>,
    pub spec: Spec<B>,
    inputs: GenInputs<B>,
}

impl<B: StarkField + ExtensibleField<2> + ExtensibleField<3>> Air for GenAir<B> {
    type BaseField = B;
    type PublicInputs = GenInputs<B>;

    fn new(trace_info: TraceInfo, pub_inputs: GenInputs<B>, options: ProofOptions) -> Self {
        let knobs = Knobs::from_meta(trace_info.meta());
        let spec = Spec::<B>::derive(&knobs, &trace_info);
        let num_main_assertions = spec.assertions.len();
        let context = if trace_info.is_multi_segment() {
            AirContext::new_multi_segment(
                trace_info,
                spec.degrees(),
                spec.aux_degrees(),
                num_main_assertions,
                spec.aux_width,
                options,
            )
        } else {
            AirContext::new(trace_info, spec.degrees(), num_main_assertions, options)
        };
        let context = context.set_num_transition_exemptions(spec.exemptions);
        GenAir { context, spec, inputs: pub_inputs }
    }

    fn context(&self) -> &AirContext<B> {
        &self.context
    }

    fn evaluate_transition<E: FieldElement<BaseField = B>>(
        &self,
        frame: &EvaluationFrame<E>,
        periodic_values: &[E],
        result: &mut [E],
    ) {
        let cur = frame.current();
        let next = frame.next();
        if cur.len() != self.spec.main_width || next.len() != self.spec.main_width || result.len() != self.spec.main_width {
            panic!("AIR-CONTRACT: main evaluation frame of width {} / {} and {} result slots handed to an AIR with {} main columns", cur.len(), next.len(), result.len(), self.spec.main_width);
        }
        for j in 0..self.spec.main_width {
            result[j] = next[j] - self.spec.next_value(j, cur, periodic_values);
        }
    }

    fn get_assertions(&self) -> Vec<Assertion<B>> {
        let n = self.spec.n;
        let mut out = Vec::with_capacity(self.spec.assertions.len());
        let mut pos = 0usize;
        let val = |i: usize| self.inputs.values.get(i).copied().unwrap_or(B::ZERO);
        for a in self.spec.assertions.iter() {
            match a.kind {
                AssertKind::Single { step } => {
                    out.push(Assertion::single(a.column, step, val(pos)));
                    pos += 1;
                },
                AssertKind::Periodic { first, stride } => {
                    out.push(Assertion::periodic(a.column, first, stride, val(pos)));
                    pos += 1;
                },
                AssertKind::Sequence { first, stride } => {
                    let k = n / stride;
                    let values: Vec<B> = (0..k).map(|i| val(pos + i)).collect();
                    out.push(Assertion::sequence(a.column, first, stride, values));
                    pos += k;
                },
            }
        }
        out
    }

    fn evaluate_aux_transition<F, E>(
        &self,
        main_frame: &EvaluationFrame<F>,
        aux_frame: &EvaluationFrame<E>,
        _periodic_values: &[F],
        aux_rand_elements: &AuxRandElements<E>,
        result: &mut [E],
    ) where
        F: FieldElement<BaseField = B>,
        E: FieldElement<BaseField = B> + ExtensionOf<F>,
    {
        let rands = aux_rand_elements.rand_elements();
        if aux_frame.current().len() != self.spec.aux_width
            || aux_frame.next().len() != self.spec.aux_width
            || main_frame.current().len() != self.spec.main_width
            || result.len() != self.spec.aux_width
        {
            panic!(
                "AIR-CONTRACT: auxiliary evaluation frame of width {} / {}, main frame of width {} and {} result slots handed to an AIR with {} main and {} auxiliary columns",
                aux_frame.current().len(),
                aux_frame.next().len(),
                main_frame.current().len(),
                result.len(),
                self.spec.main_width,
                self.spec.aux_width
            );
        }
        for i in 0..self.spec.aux_width {
            result[i] = aux_frame.next()[i]
                - self.spec.aux_next_value(i, main_frame.current(), aux_frame.current(), rands);
        }
    }

    fn get_aux_assertions<E: FieldElement<BaseField = B>>(
        &self,
        aux_rand_elements: &AuxRandElements<E>,
    ) -> Vec<Assertion<E>> {
        let rands = aux_rand_elements.rand_elements();
        (0..self.spec.aux_width).map(|i| Assertion::single(i, 0, self.spec.aux_init(i, rands))).collect()
    }

    fn get_periodic_column_values(&self) -> Vec<Vec<B>> {
        self.spec.periodic.clone()
    }
}

// TRACE
// ================================================================================================

pub struct GenTrace<B: StarkField> {
    info: TraceInfo,
    main: ColMatrix<B>,
}

impl<B: StarkField> GenTrace<B> {
    pub fn new(info: TraceInfo, columns: Vec<Vec<B>>) -> Self {
        GenTrace { info, main: ColMatrix::new(columns) }
    }
    pub fn columns(&self) -> Vec<Vec<B>> {
        (0..self.main.num_cols()).map(|j| self.main.get_column(j).to_vec()).collect()
    }
}

impl<B: StarkField> Trace for GenTrace<B> {
    type BaseField = B;

    fn info(&self) -> &TraceInfo {
        &self.info
    }
    fn main_segment(&self) -> &ColMatrix<B> {
        &self.main
    }
    fn read_main_frame(&self, row_idx: usize, frame: &mut EvaluationFrame<B>) {
        let next = (row_idx + 1) % self.info.length();
        self.main.read_row_into(row_idx, frame.current_mut());
        self.main.read_row_into(next, frame.next_mut());
    }
}

/// builds a satisfying main trace for `spec`: row 0 random, rows up to the last non-exempt
/// transition by the rules, exempt tail arbitrary where the column allows it
pub fn build_main_columns<B: StarkField>(spec: &Spec<B>, rng: &mut Rng) -> Vec<Vec<B>> {
    let n = spec.n;
    let w = spec.main_width;
    let mut cols: Vec<Vec<B>> = vec![vec![B::ZERO; n]; w];
    let mut cur: Vec<B> = (0..w).map(|_| rand_elem::<B>(rng)).collect();
    let np = spec.periodic.len();
    let last_ruled = n - spec.exemptions; // rows 0..=last_ruled follow the rules
    for t in 0..n {
        for j in 0..w {
            cols[j][t] = cur[j];
        }
        if t + 1 == n {
            break;
        }
        let periodic: Vec<B> = (0..np).map(|p| spec.periodic_at(p, t)).collect();
        let mut next: Vec<B> = (0..w).map(|j| spec.next_value::<B>(j, &cur, &periodic)).collect();
        if t >= last_ruled {
            for j in 0..w {
                if spec.free_tail[j] {
                    next[j] = rand_elem::<B>(rng);
                }
            }
        }
        cur = next;
    }
    cols
}

/// builds the auxiliary columns for a main trace and the drawn random elements
pub fn build_aux_columns<B, E>(spec: &Spec<B>, main: &[Vec<B>], rands: &[E], tail_rng: &mut Rng) -> Vec<Vec<E>>
where
    B: StarkField,
    E: FieldElement<BaseField = B>,
{
    let n = spec.n;
    let w = spec.aux_width;
    let mut cols: Vec<Vec<E>> = vec![vec![E::ZERO; n]; w];
    let mut cur: Vec<E> = (0..w).map(|i| spec.aux_init(i, rands)).collect();
    let last_ruled = n - spec.exemptions;
    for t in 0..n {
        for i in 0..w {
            cols[i][t] = cur[i];
        }
        if t + 1 == n {
            break;
        }
        let main_cur: Vec<B> = (0..spec.main_width).map(|j| main[j][t]).collect();
        let mut next: Vec<E> = (0..w).map(|i| spec.aux_next_value::<B, E>(i, &main_cur, &cur, rands)).collect();
        if t >= last_ruled {
            for v in next.iter_mut() {
                *v = rand_elem::<E>(tail_rng);
            }
        }
        cur = next;
    }
    cols
}

/// reads the asserted values off a main trace
pub fn public_inputs<B: StarkField>(spec: &Spec<B>, main: &[Vec<B>]) -> GenInputs<B> {
    let mut values = Vec::with_capacity(spec.num_public_values());
    for a in spec.assertions.iter() {
        match a.kind {
            AssertKind::Single { step } => values.push(main[a.column][step]),
            AssertKind::Periodic { first, .. } => values.push(main[a.column][first]),
            AssertKind::Sequence { .. } => {
                for s in a.steps(spec.n) {
                    values.push(main[a.column][s]);
                }
            },
        }
    }
    GenInputs { values }
}

// INDEPENDENT CONSTRAINT CHECKER
// ================================================================================================

/// Decides whether (main, aux) satisfies the instance, with its own loops: assertion steps by
/// `first + k * stride`, periodic values by table lookup, exemption count from the spec. Returns
/// the first violated requirement in words.
pub fn independent_check<B, E>(
    spec: &Spec<B>,
    inputs: &GenInputs<B>,
    main: &[Vec<B>],
    aux: Option<(&[Vec<E>], &[E])>,
) -> Result<(), String>
where
    B: StarkField,
    E: FieldElement<BaseField = B>,
{
    let n = spec.n;
    // assertions
    let mut pos = 0usize;
    for (ai, a) in spec.assertions.iter().enumerate() {
        let steps = a.steps(n);
        for (k, &s) in steps.iter().enumerate() {
            let want = match a.kind {
                AssertKind::Sequence { .. } => inputs.values.get(pos + k).copied(),
                _ => inputs.values.get(pos).copied(),
            };
            if want != Some(main[a.column][s]) {
                return Err(format!("main assertion #{ai} ({:?}) fails at column {} step {s}", a.kind, a.column));
            }
        }
        pos += a.num_values(n);
    }
    if let Some((aux_cols, rands)) = aux {
        for i in 0..spec.aux_width {
            if aux_cols[i][0] != spec.aux_init(i, rands) {
                return Err(format!("aux assertion on column {i} step 0 fails"));
            }
        }
    }
    // transitions on non-exempt steps
    let np = spec.periodic.len();
    for t in 0..n - spec.exemptions {
        let cur: Vec<B> = (0..spec.main_width).map(|j| main[j][t]).collect();
        let periodic: Vec<B> = (0..np).map(|p| spec.periodic_at(p, t)).collect();
        for j in 0..spec.main_width {
            if main[j][t + 1] != spec.next_value::<B>(j, &cur, &periodic) {
                return Err(format!("main transition of column {j} fails at step {t}"));
            }
        }
        if let Some((aux_cols, rands)) = aux {
            let aux_cur: Vec<E> = (0..spec.aux_width).map(|i| aux_cols[i][t]).collect();
            for i in 0..spec.aux_width {
                if aux_cols[i][t + 1] != spec.aux_next_value::<B, E>(i, &cur, &aux_cur, rands) {
                    return Err(format!("aux transition of column {i} fails at step {t}"));
                }
            }
        }
    }
    Ok(())
}
