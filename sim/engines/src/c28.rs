//! C28 - trace / composition LDEs and row commitments against their definitions, in the serial
//! build and under the simulated scheduler.

use air::PartitionOptions;
use crypto::{
    hashers::{Blake3_192, Blake3_256, Rp62_248, Rp64_256, RpJive64_256, Sha3_256},
    ElementHasher, MerkleTree, VectorCommitment,
};
use math::{
    fft,
    fields::{CubeExtension, QuadExtension},
    FieldElement, StarkField,
};
use prover::{
    matrix::{ColMatrix, RowMatrix},
    StarkDomain,
};
use simcore::{
    driver::Scenario,
    fail, guard, stats,
    tape::{self, Stream},
    Outcome,
};

use crate::{
    c20::COIN_NAMES,
    fields::{rand_nonzero, rand_vec, show, F128, F62, F64},
    sched, with_coin_hasher,
};

pub fn scenarios() -> Vec<Scenario> {
    let mut v = vec![Scenario::new(
        "C28",
        "lde-and-commitments",
        "RowMatrix::evaluate_polys(_over) / ColMatrix::interpolate_columns / evaluate_columns_over / commit_to_rows for 1..255 columns (counts not divisible by the segment width), base and extension columns, polynomial size 8..2^12, blowup 2..128, partitions x hash rates, every hasher; reference = Horner evaluation at the LDE domain points and the verifier's row-hash rule",
        run_c28,
        1_500,
        80_000,
    )];
    for s in v.iter_mut() {
        s.watchdog_s = 120;
    }
    v
}

fn horner<E: FieldElement>(p: &[E], x: E) -> E {
    p.iter().rev().fold(E::ZERO, |acc, &c| acc * x + c)
}

/// the rule the verifier applies to a queried row (copied from the protocol description)
fn hash_row<H, E>(row: &[E], partition_size: usize) -> H::Digest
where
    E: FieldElement,
    H: ElementHasher<BaseField = E::BaseField>,
{
    if partition_size == row.len() {
        H::hash_elements(row)
    } else {
        let parts: Vec<H::Digest> = row.chunks(partition_size).map(|c| H::hash_elements(c)).collect();
        H::merge_many(&parts)
    }
}

fn run_c28() -> Outcome {
    let threads = sched::begin(false);
    let combo = tape::w("c28.combo", 12) as usize;
    let field = crate::protocol::combo_field(combo);
    let ext = match field {
        2 => 1 + tape::w("c28.ext", 2),
        _ => 1 + tape::w("c28.ext", 3),
    };
    stats::sig((combo as u64) << 4 | ext);
    stats::nontrivial();
    with_coin_hasher!(combo, H, B => match ext {
        1 => c28::<B, B, H>(combo, threads),
        2 => c28::<B, QuadExtension<B>, H>(combo, threads),
        _ => c28::<B, CubeExtension<B>, H>(combo, threads),
    })
}

fn c28<B, E, H>(combo: usize, threads: usize) -> Outcome
where
    B: StarkField,
    E: FieldElement<BaseField = B>,
    H: ElementHasher<BaseField = B>,
{
    let rescue = combo >= 9;
    let log_n = match tape::w("c28.size.class", 5) {
        0 => 3,
        1 => 3 + tape::w("c28.size.small", 4) as u32,
        2 => 9 + tape::w("c28.size.thr", 3) as u32, // around the 1024 threshold
        _ => 3 + tape::w("c28.size.any", 10) as u32,
    };
    let n = 1usize << log_n;
    let max_log_b = (16 - log_n).min(7);
    let blowup = 1usize << (1 + tape::w("c28.blowup", max_log_b as u64) as u32);
    let lde = n * blowup;
    // column budget: keep total cells bounded
    let cell_budget = if rescue { 1 << 15 } else { 1 << 19 };
    let max_cols = (cell_budget / lde / E::EXTENSION_DEGREE).clamp(1, 255);
    let ncols = match tape::w("c28.cols.class", 7) {
        0 => 1,
        1 => 7,
        2 => 8,
        3 => 9,
        4 => max_cols,
        _ => 1 + tape::w("c28.cols.any", max_cols as u64) as usize,
    }
    .min(max_cols);
    let partitions = if tape::w("c28.partitions.on", 2) == 0 { 1 + tape::w("c28.partitions", 16) as usize } else { 1 };
    let hash_rate = match tape::w("c28.hash_rate.class", 3) {
        0 => 1,
        1 => [4usize, 7, 8, 12, 16][tape::w("c28.hash_rate.typical", 5) as usize],
        _ => 1 + tape::w("c28.hash_rate.any", 255) as usize,
    };
    let popts = PartitionOptions::new(partitions, hash_rate);
    let mut rng = tape::fork(Stream::Workload, "c28.values");
    let offset: B = if tape::w("c28.offset", 2) == 0 { B::GENERATOR } else { rand_nonzero(&mut rng) };
    let ctx = format!(
        "{{\"combo\":\"{}\",\"ext\":{},\"cols\":{ncols},\"poly_size\":{n},\"blowup\":{blowup},\"partitions\":[{partitions},{hash_rate}],\"threads\":{threads}}}",
        COIN_NAMES[combo],
        E::EXTENSION_DEGREE
    );
    stats::sample(|| ctx.clone());
    stats::sig((ncols as u64) << 20 | (log_n as u64) << 8 | blowup.ilog2() as u64);
    if ncols % 8 != 0 {
        stats::probe("probe.column_count_not_divisible_by_segment_width");
    }
    if partitions > 1 {
        stats::probe("probe.partitioned_row_hash");
    }
    let polys: Vec<Vec<E>> = (0..ncols).map(|_| rand_vec(&mut rng, n)).collect();
    let poly_matrix = ColMatrix::new(polys.clone());
    let g_lde = B::get_root_of_unity(lde.ilog2());
    macro_rules! call {
        ($what:expr, $e:expr) => {
            match guard(|| $e) {
                Ok(v) => v,
                Err(p) => fail!("panic", p.site(), "{}: {} :: {ctx}", $what, p.msg),
            }
        };
    }
    // cells at which the reference is evaluated
    let cells: Vec<(usize, usize)> = if lde * ncols <= 2048 {
        (0..lde).flat_map(|r| (0..ncols).map(move |c| (r, c))).collect()
    } else {
        let mut v = vec![(0, 0), (lde - 1, ncols - 1), (0, ncols - 1), (lde - 1, 0), (1, 0), (lde / 2, ncols / 2)];
        for _ in 0..40 {
            v.push((tape::w("c28.cell.row", lde as u64) as usize, tape::w("c28.cell.col", ncols as u64) as usize));
        }
        v
    };
    // 1. row-major LDE with the default offset, and over an explicit domain with `offset`
    let domain = StarkDomain::from_twiddles(fft::get_twiddles::<B>(n), blowup, offset);
    let which = tape::w("c28.which", 2);
    let (rm, used_offset): (RowMatrix<E>, B) = if which == 0 {
        (call!("RowMatrix::evaluate_polys", RowMatrix::<E>::evaluate_polys::<8>(&poly_matrix, blowup)), B::GENERATOR)
    } else {
        (call!("RowMatrix::evaluate_polys_over", RowMatrix::<E>::evaluate_polys_over::<8>(&poly_matrix, &domain)), offset)
    };
    if rm.num_rows() != lde || rm.num_cols() != ncols {
        fail!("lde-shape-differs", "RowMatrix", "{} x {} instead of {lde} x {ncols} :: {ctx}", rm.num_rows(), rm.num_cols());
    }
    for &(r, c) in cells.iter() {
        let x = E::from(used_offset * g_lde.exp_vartime((r as u64).into()));
        let want = horner(&polys[c], x);
        let got = rm.get(c, r);
        if got != want {
            fail!("lde-cell-differs-from-polynomial-value", "RowMatrix", "row {r} column {c}: want {} got {} :: {ctx}", show(&want), show(&got));
        }
    }
    // 2. column-major LDE
    let cm = call!("ColMatrix::evaluate_columns_over", poly_matrix.evaluate_columns_over(&domain));
    for &(r, c) in cells.iter() {
        let x = E::from(offset * g_lde.exp_vartime((r as u64).into()));
        let want = horner(&polys[c], x);
        if cm.get(c, r) != want {
            fail!("lde-cell-differs-from-polynomial-value", "ColMatrix", "row {r} column {c} :: {ctx}");
        }
    }
    // 3. interpolation reproduces the trace
    let trace = ColMatrix::new(polys.clone()); // read the same values as a trace
    let interp = call!("ColMatrix::interpolate_columns", trace.interpolate_columns());
    let g_n = B::get_root_of_unity(n.ilog2());
    for &(r, c) in cells.iter().take(24) {
        let r = r % n;
        let x = E::from(g_n.exp_vartime((r as u64).into()));
        if horner(interp.get_column(c), x) != polys[c][r] {
            fail!("interpolated-polynomial-does-not-reproduce-trace", "ColMatrix::interpolate_columns", "step {r} column {c} :: {ctx}");
        }
    }
    let interp2 = call!("ColMatrix::interpolate_columns_into", ColMatrix::new(polys.clone()).interpolate_columns_into());
    for c in 0..ncols.min(4) {
        if interp2.get_column(c) != interp.get_column(c) {
            fail!("interpolate-variants-differ", "ColMatrix::interpolate_columns_into", "column {c} :: {ctx}");
        }
    }
    // 4. row commitments follow the verifier's partition rule
    let commitment: MerkleTree<H> = call!("RowMatrix::commit_to_rows", rm.commit_to_rows::<H, MerkleTree<H>>(popts));
    let psize = popts.partition_size::<E>(ncols);
    let leaves: Vec<H::Digest> = (0..lde).map(|r| hash_row::<H, E>(rm.row(r), psize)).collect();
    let reference = MerkleTree::<H>::new(leaves.clone()).expect("reference tree");
    if commitment.commitment() != reference.commitment() {
        // name the first row whose digest is not the rule's
        let r = (0..lde).find(|&r| commitment.leaves()[r] != leaves[r]);
        fail!("row-commitment-differs-from-partition-rule", "RowMatrix::commit_to_rows", "first differing row digest: {r:?}, partition size {psize} :: {ctx}");
    }
    let cm_commitment: MerkleTree<H> = call!("ColMatrix::commit_to_rows", cm.commit_to_rows::<H, MerkleTree<H>>());
    let plain: Vec<H::Digest> = (0..lde)
        .map(|r| {
            let row: Vec<E> = (0..ncols).map(|c| cm.get(c, r)).collect();
            H::hash_elements(&row)
        })
        .collect();
    if cm_commitment.commitment() != MerkleTree::<H>::new(plain).expect("reference tree").commitment() {
        fail!("row-commitment-differs-from-partition-rule", "ColMatrix::commit_to_rows", "{ctx}");
    }
    if sched::regions() > 0 {
        stats::probe("probe.ran_under_simulated_scheduler");
    }
    Ok(())
}
