//! C20 - the public coin as a replicated state machine: two replicas and an executable reference
//! model (written from the documented derivation, using only the hasher's public primitives) are
//! fed the same tape-drawn history and must agree event by event; a history fault (one reseed
//! digest replaced on one replica) must change every later draw.

use crypto::{
    hashers::{Blake3_192, Blake3_256, Rp62_248, Rp64_256, RpJive64_256, Sha3_256},
    DefaultRandomCoin, Digest, ElementHasher, Hasher, RandomCoin,
};
use math::{
    fields::{CubeExtension, QuadExtension},
    ExtensibleField, FieldElement, StarkField,
};
use simcore::{
    driver::Scenario,
    fail, guard, stats,
    tape::{self, Stream},
    Outcome,
};
use utils::{Deserializable, Serializable};

use crate::fields::{rand_vec, show, F128, F62, F64};

pub const COIN_NAMES: [&str; 12] = [
    "Blake3_256/f62", "Blake3_256/f64", "Blake3_256/f128", "Blake3_192/f62", "Blake3_192/f64", "Blake3_192/f128",
    "Sha3_256/f62", "Sha3_256/f64", "Sha3_256/f128", "Rp64_256/f64", "RpJive64_256/f64", "Rp62_248/f62",
];

#[macro_export]
macro_rules! with_coin_hasher {
    ($idx:expr, $H:ident, $B:ident => $body:expr) => {
        match $idx {
            0 => { type $B = F62; type $H = Blake3_256<F62>; $body },
            1 => { type $B = F64; type $H = Blake3_256<F64>; $body },
            2 => { type $B = F128; type $H = Blake3_256<F128>; $body },
            3 => { type $B = F62; type $H = Blake3_192<F62>; $body },
            4 => { type $B = F64; type $H = Blake3_192<F64>; $body },
            5 => { type $B = F128; type $H = Blake3_192<F128>; $body },
            6 => { type $B = F62; type $H = Sha3_256<F62>; $body },
            7 => { type $B = F64; type $H = Sha3_256<F64>; $body },
            8 => { type $B = F128; type $H = Sha3_256<F128>; $body },
            9 => { type $B = F64; type $H = Rp64_256; $body },
            10 => { type $B = F64; type $H = RpJive64_256; $body },
            _ => { type $B = F62; type $H = Rp62_248; $body },
        }
    };
}

pub fn scenarios() -> Vec<Scenario> {
    vec![Scenario::new(
        "C20",
        "replicas-vs-model",
        "two DefaultRandomCoin replicas + reference coin over a tape-drawn history of new / reseed / draw<E> / draw_integers / check_leading_zeros; well-formedness of outputs; history fault ReseedSub",
        run_c20,
        40_000,
        800_000,
    )]
}

/// the reference coin: the documented derivation, from hasher primitives only
struct ModelCoin<H: ElementHasher> {
    seed: H::Digest,
    counter: u64,
}

impl<H: ElementHasher> ModelCoin<H> {
    fn new(seed: &[H::BaseField]) -> Self {
        ModelCoin { seed: H::hash_elements(seed), counter: 0 }
    }
    fn reseed(&mut self, d: H::Digest) {
        self.seed = H::merge(&[self.seed, d]);
        self.counter = 0;
    }
    fn next(&mut self) -> H::Digest {
        self.counter += 1;
        H::merge_with_int(self.seed, self.counter)
    }
    fn draw<E: FieldElement>(&mut self) -> Option<E> {
        for _ in 0..1000 {
            let d = self.next().as_bytes();
            if let Some(e) = E::from_random_bytes(&d[..E::ELEMENT_BYTES]) {
                return Some(e);
            }
        }
        None
    }
    fn draw_integers(&mut self, n: usize, domain: usize, nonce: u64) -> Vec<usize> {
        self.seed = H::merge_with_int(self.seed, nonce);
        self.counter = 0;
        let mask = (domain - 1) as u64;
        (0..n)
            .map(|_| {
                let d = self.next().as_bytes();
                (u64::from_le_bytes(d[..8].try_into().unwrap()) & mask) as usize
            })
            .collect()
    }
    fn leading_zeros(&self, nonce: u64) -> u32 {
        let d = H::merge_with_int(self.seed, nonce).as_bytes();
        u64::from_le_bytes(d[..8].try_into().unwrap()).trailing_zeros()
    }
}

fn run_c20() -> Outcome {
    // one run in thirteen puts the coin on the transparent stub hasher, where every number of
    // trailing zero bits (0..=64) in the nonce-merged digest occurs - out of reach of any real
    // hash function within a test budget (33 zero bits cost about 2^33 hashes)
    let cidx = tape::w("coin", 13) as usize;
    stats::sig(cidx as u64);
    let r = if cidx == 12 {
        stats::probe("probe.coin_on_the_transparent_stub_hasher");
        c20_case::<F64, StubHasher>("StubHasher/f64")
    } else {
        with_coin_hasher!(cidx, H, B => c20_case::<B, H>(COIN_NAMES[cidx]))
    };
    stats::nontrivial();
    r
}

// TRANSPARENT STUB HASHER
// ================================================================================================

/// A hasher seam: a deterministic, non-cryptographic mixing function with a twist in
/// `merge_with_int` - for values of 2^32 and above the first eight digest bytes are shifted left by `value mod 65` bits, so
/// that the proof-of-work count takes every value from 0 to 64. Only the generic coin runs on it.
#[derive(Debug, Default, Copy, Clone, Eq, PartialEq)]
pub struct StubDigest([u8; 32]);

impl Digest for StubDigest {
    fn as_bytes(&self) -> [u8; 32] {
        self.0
    }
}
impl Serializable for StubDigest {
    fn write_into<W: utils::ByteWriter>(&self, target: &mut W) {
        target.write_bytes(&self.0);
    }
}
impl Deserializable for StubDigest {
    fn read_from<R: utils::ByteReader>(source: &mut R) -> Result<Self, utils::DeserializationError> {
        Ok(StubDigest(source.read_array()?))
    }
}

fn stub_mix(bytes: &[u8], salt: u64) -> [u8; 32] {
    let mut lanes = [0x9e37_79b9_7f4a_7c15u64 ^ salt, 0xbf58_476d_1ce4_e5b9, 0x94d0_49bb_1331_11eb, 0x2545_f491_4f6c_dd1d];
    for (i, b) in bytes.iter().enumerate() {
        let l = i % 4;
        lanes[l] = (lanes[l] ^ (*b as u64)).wrapping_mul(0x0000_0100_0000_01b3).rotate_left(23) ^ lanes[(l + 1) % 4];
    }
    for _ in 0..3 {
        for l in 0..4 {
            lanes[l] = (lanes[l] ^ (lanes[l] >> 29)).wrapping_mul(0xbf58_476d_1ce4_e5b9) ^ lanes[(l + 3) % 4].rotate_left(17);
        }
    }
    let mut out = [0u8; 32];
    for l in 0..4 {
        out[l * 8..(l + 1) * 8].copy_from_slice(&lanes[l].to_le_bytes());
    }
    out
}

pub struct StubHasher;

impl Hasher for StubHasher {
    type Digest = StubDigest;
    const COLLISION_RESISTANCE: u32 = 0;
    fn hash(bytes: &[u8]) -> StubDigest {
        StubDigest(stub_mix(bytes, 1))
    }
    fn merge(values: &[StubDigest; 2]) -> StubDigest {
        let mut b = Vec::with_capacity(64);
        b.extend_from_slice(&values[0].0);
        b.extend_from_slice(&values[1].0);
        StubDigest(stub_mix(&b, 2))
    }
    fn merge_many(values: &[StubDigest]) -> StubDigest {
        let mut b = Vec::with_capacity(32 * values.len());
        for v in values {
            b.extend_from_slice(&v.0);
        }
        StubDigest(stub_mix(&b, 3))
    }
    fn merge_with_int(seed: StubDigest, value: u64) -> StubDigest {
        let mut b = Vec::with_capacity(40);
        b.extend_from_slice(&seed.0);
        b.extend_from_slice(&value.to_le_bytes());
        let mut d = stub_mix(&b, 4);
        let head = u64::from_le_bytes(d[..8].try_into().unwrap()) | 1;
        // only for large values (nonces): the coin also merges its small draw counter through this
        // function, and draws must keep their entropy
        if value >= 1 << 32 {
            let shift = (value % 65) as u32;
            let head = if shift == 64 { 0 } else { head << shift };
            d[..8].copy_from_slice(&head.to_le_bytes());
        }
        StubDigest(d)
    }
}

impl ElementHasher for StubHasher {
    type BaseField = F64;
    fn hash_elements<E: FieldElement<BaseField = F64>>(elements: &[E]) -> StubDigest {
        let mut b = Vec::new();
        for e in elements {
            e.write_into(&mut b);
        }
        StubDigest(stub_mix(&b, 5))
    }
}

fn canonical<E: FieldElement>(e: &E) -> bool {
    // every base-field coordinate is a canonical value, and the encoding round-trips
    for i in 0..E::EXTENSION_DEGREE {
        if e.base_element(i).as_int() >= <E::BaseField as StarkField>::MODULUS {
            return false;
        }
    }
    matches!(E::read_from_bytes(&e.to_bytes()), Ok(d) if d == *e)
}

fn c20_case<B, H>(cname: &str) -> Outcome
where
    B: StarkField + ExtensibleField<2> + ExtensibleField<3>,
    H: ElementHasher<BaseField = B>,
{
    let mut rng = tape::fork(Stream::Workload, "history.data");
    let seed_len = match tape::w("seed.len", 4) {
        0 => 0,
        1 => 1,
        2 => 4,
        _ => 1 + tape::w("seed.len.any", 40) as usize,
    };
    let seed: Vec<B> = rand_vec(&mut rng, seed_len);
    let mut a = DefaultRandomCoin::<H>::new(&seed);
    let mut b = DefaultRandomCoin::<H>::new(&seed);
    let mut m = ModelCoin::<H>::new(&seed);
    // the replica that suffers a history fault
    let mut c = DefaultRandomCoin::<H>::new(&seed);
    let fault_at = tape::f("reseed_sub.at", 6); // 0 = no fault; k = the k-th reseed is substituted
    let mut reseeds = 0u64;
    let mut diverged = false;
    let steps = 2 + tape::w("history.len", 24);
    stats::sig(seed_len as u64);
    let mut history: Vec<String> = Vec::new();
    for step in 0..steps {
        let op = tape::w("history.op", 6);
        stats::count("steps.coin_events", 1);
        if step < 8 {
            stats::sig(op);
        }
        match op {
            0 => {
                let d = H::hash(&rng.next_u64().to_le_bytes());
                reseeds += 1;
                a.reseed(d);
                b.reseed(d);
                m.reseed(d);
                if fault_at != 0 && reseeds == fault_at {
                    let d2 = H::hash(&rng.next_u64().to_le_bytes());
                    c.reseed(d2);
                    diverged = d2 != d;
                    stats::count("fault.reseed_sub", 1);
                    history.push(format!("reseed(SUBSTITUTED on replica C)"));
                } else {
                    c.reseed(d);
                    history.push("reseed".into());
                }
            },
            1..=3 => {
                let deg = if op == 1 { 1 } else if op == 2 { 2 } else { 3 };
                macro_rules! draw_as {
                    ($E:ty, $supported:expr) => {{
                        if !$supported {
                            continue;
                        }
                        let ra = guard(|| a.draw::<$E>());
                        let rb = guard(|| b.draw::<$E>());
                        let rc = guard(|| c.draw::<$E>());
                        let rm = m.draw::<$E>();
                        history.push(format!("draw<deg {deg}>"));
                        match (ra, rb) {
                            (Ok(Ok(x)), Ok(Ok(y))) => {
                                if x != y {
                                    fail!("replicas-disagree", "draw", "{cname} step {step}: {} vs {} after {history:?}", show(&x), show(&y));
                                }
                                if Some(x) != rm {
                                    fail!("differs-from-reference-coin", "draw", "{cname} step {step} degree {deg}: coin {} model {:?} after {history:?}", show(&x), rm.map(|e| show(&e)));
                                }
                                if !canonical(&x) {
                                    fail!("drawn-element-not-canonical", "draw", "{cname} step {step}: {}", show(&x));
                                }
                                if diverged {
                                    if let Ok(Ok(z)) = rc {
                                        if z == x {
                                            fail!("substituted-reseed-did-not-change-draw", "draw", "{cname} step {step}: both replicas drew {} after {history:?}", show(&x));
                                        }
                                        stats::probe("probe.draw_after_substituted_reseed_differs");
                                    }
                                }
                            },
                            (Ok(Err(_)), Ok(Err(_))) if rm.is_none() => {},
                            (Err(p), _) | (_, Err(p)) => fail!("panic", p.site(), "{cname} draw: {}", p.msg),
                            _ => fail!("replicas-disagree", "draw", "{cname} step {step}: one replica failed to draw"),
                        }
                    }};
                }
                match deg {
                    1 => draw_as!(B, true),
                    2 => draw_as!(QuadExtension<B>, <QuadExtension<B>>::is_supported()),
                    _ => draw_as!(CubeExtension<B>, <CubeExtension<B>>::is_supported()),
                }
            },
            4 => {
                let logd = 1 + tape::w("ints.logdomain", 24) as u32;
                let domain = 1usize << logd;
                let n = match tape::w("ints.count.class", 6) {
                    0 => 1,
                    1 => (domain - 1).min(255),
                    // none at all, and counts around the coin's documented budget of 1000 draws
                    2 => 0,
                    3 => [999usize, 1000, 1001, 1024, 4000][tape::w("ints.count.big", 5) as usize].min(domain - 1),
                    _ => 1 + tape::w("ints.count", (domain - 1).min(255) as u64) as usize,
                };
                let nonce = match tape::w("ints.nonce.class", 3) {
                    0 => 0,
                    1 => 1,
                    _ => rng.next_u64(),
                };
                history.push(format!("draw_integers({n}, 2^{logd}, {nonce})"));
                let ra = guard(|| a.draw_integers(n, domain, nonce));
                let rb = guard(|| b.draw_integers(n, domain, nonce));
                let rc = guard(|| c.draw_integers(n, domain, nonce));
                // beyond 1000 values the coin documents an error (after spending its 1000 draws)
                let rm = m.draw_integers(n.min(1000), domain, nonce);
                if n == 0 {
                    stats::probe("probe.zero_integers_requested");
                }
                match (ra, rb) {
                    (Ok(Err(_)), Ok(Err(_))) if n > 1000 => stats::probe("probe.more_integers_than_the_draw_budget"),
                    (Ok(Ok(x)), Ok(Ok(y))) => {
                        if x != y {
                            fail!("replicas-disagree", "draw_integers", "{cname} step {step}");
                        }
                        if x.len() != n {
                            fail!("wrong-number-of-integers", "draw_integers", "{cname} step {step}: asked {n}, got {}", x.len());
                        }
                        if let Some(v) = x.iter().find(|v| **v >= domain) {
                            fail!("integer-outside-domain", "draw_integers", "{cname} step {step}: {v} >= {domain}");
                        }
                        if x != rm {
                            fail!("differs-from-reference-coin", "draw_integers", "{cname} step {step}: n={n} domain=2^{logd} nonce={nonce}: coin {:?} model {:?} after {history:?}", &x[..x.len().min(6)], &rm[..rm.len().min(6)]);
                        }
                        if diverged && logd >= 16 && n >= 8 {
                            if let Ok(Ok(z)) = rc {
                                if z == x {
                                    fail!("substituted-reseed-did-not-change-draw", "draw_integers", "{cname} step {step}");
                                }
                            }
                        }
                    },
                    (Err(p), _) | (_, Err(p)) => fail!("panic", p.site(), "{cname} draw_integers({n}, {domain}, {nonce}): {}", p.msg),
                    _ => fail!("replicas-disagree", "draw_integers", "{cname} step {step}: error on one replica"),
                }
            },
            _ => {
                let nonce = match tape::w("pow.nonce.class", 3) {
                    0 => 0,
                    1 => tape::w("pow.nonce.small", 5000),
                    _ => rng.next_u64(),
                };
                history.push(format!("check_leading_zeros({nonce})"));
                let za = a.check_leading_zeros(nonce);
                let zb = b.check_leading_zeros(nonce);
                let zm = m.leading_zeros(nonce);
                if zm > 32 {
                    stats::probe("probe.proof_of_work_count_above_32");
                }
                if za != zb {
                    fail!("replicas-disagree", "check_leading_zeros", "{cname} step {step}");
                }
                if za != zm {
                    fail!("pow-check-differs-from-definition", "check_leading_zeros", "{cname} step {step} nonce {nonce}: coin {za}, trailing zero bits of the first eight bytes of merge_with_int(seed, nonce) = {zm}");
                }
                if za >= 8 {
                    stats::probe("probe.nonce_with_8_or_more_zero_bits");
                }
            },
        }
    }
    stats::sample(|| format!("{{\"coin\":\"{cname}\",\"seed_elements\":{seed_len},\"history\":{history:?}}}").replace('\\', ""));
    Ok(())
}
