//! C08 - FRI completeness and C09 - FRI rejection, as a protocol simulation between the FRI
//! prover and the FRI verifier over their channel traits (the transport seam the crate was
//! designed around), with a recording coin on both ends and, in the concurrent build, the layer
//! hashing and folding kernels on the simulated scheduler.

use crypto::{
    hashers::{Blake3_192, Blake3_256, Rp62_248, Rp64_256, RpJive64_256, Sha3_256},
    ElementHasher, Hasher, MerkleTree, RandomCoin,
};
use fri::{folding::fold_positions, DefaultProverChannel, DefaultVerifierChannel, FriOptions, FriProof, FriProver, FriVerifier};
use math::{
    fft,
    fields::{CubeExtension, QuadExtension},
    ExtensibleField, FieldElement, StarkField,
};
use simcore::{
    driver::Scenario,
    fail, guard, stats,
    tape::{self, Stream},
    Outcome,
};
use utils::{Deserializable, Serializable};

use crate::{
    c01::first_divergence,
    c20::COIN_NAMES,
    fields::{rand_elem, rand_nonzero, rand_vec, F128, F62, F64},
    protocol::{history, reset_histories, set_role, RecordingCoin, PROVER, VERIFIER},
    sched,
    wire::FriImg,
    with_coin_hasher,
};

pub fn scenarios() -> Vec<Scenario> {
    let mut v = vec![
        Scenario::new(
            "C08",
            "fri-honest",
            "FriProver <-> FriVerifier over channels: evaluations of a polynomial within the degree bound (lower, zero, exactly the bound), any blowup / folding / remainder degree / domain 2^3..2^16 / base or extension field / hasher / query multiset (duplicates, one coset, all distinct): verify = Ok, also after the proof went through bytes; coin histories equal",
            run_c08,
            8_000,
            200_000,
        ),
        Scenario::new(
            "C09",
            "fri-faulty",
            "same system with a faulty channel / Byzantine prover: high-degree or random function, understated bound, substituted layer value / proof node / commitment, substituted remainder (plain, degree-raising, and adaptive: agreeing with the folded evaluations at every queried point), lost / duplicated / reordered layers: verify must not return Ok",
            run_c09,
            12_000,
            300_000,
        ),
    ];
    for s in v.iter_mut() {
        s.watchdog_s = 120;
    }
    v
}

#[derive(Clone, Debug)]
struct FriParams {
    log_domain: u32,
    blowup: usize,
    folding: usize,
    remainder: usize,
    num_queries: usize,
    ext: u8,
}

impl FriParams {
    fn domain(&self) -> usize {
        1 << self.log_domain
    }
    fn bound_plus_1(&self) -> usize {
        self.domain() / self.blowup
    }
    /// folding would truncate the degree bound before the remainder size is reached
    fn truncates(&self) -> bool {
        let mut d = self.bound_plus_1();
        while d > self.remainder + 1 {
            if d % self.folding != 0 {
                return true;
            }
            d /= self.folding;
        }
        false
    }
    fn describe(&self, combo: usize) -> String {
        format!(
            "{{\"combo\":\"{}\",\"domain\":{},\"blowup\":{},\"folding\":{},\"remainder_max_degree\":{},\"queries\":{},\"extension\":{}}}",
            COIN_NAMES[combo], self.domain(), self.blowup, self.folding, self.remainder, self.num_queries, self.ext
        )
    }
}

fn draw_params(field: usize, max_log_domain: u32) -> FriParams {
    let log_domain = match tape::w("fri.domain.class", 5) {
        0 => 3,
        1 => 4 + tape::w("fri.domain.small", 4) as u32,
        2 => 10 + tape::w("fri.domain.thr", 3) as u32,
        _ => 3 + tape::w("fri.domain.any", (max_log_domain - 2) as u64) as u32,
    }
    .min(max_log_domain);
    // blowup 2..=128 but the degree bound + 1 must be at least 1
    let max_log_b = (log_domain).min(7);
    let log_b = 1 + tape::w("fri.blowup", max_log_b as u64) as u32;
    let blowup = 1usize << log_b.min(max_log_b);
    let folding = [2usize, 4, 8, 16][tape::w("fri.folding", 4) as usize];
    let remainder = (1usize << tape::w("fri.remainder", 9)) - 1;
    let num_queries = match tape::w("fri.queries.class", 5) {
        0 => 1,
        1 => 2,
        2 => 255,
        _ => 1 + tape::w("fri.queries.any", 64) as usize,
    };
    let ext = match field {
        2 => 1 + tape::w("fri.ext", 2) as u8,
        _ => 1 + tape::w("fri.ext", 3) as u8,
    };
    FriParams { log_domain, blowup, folding, remainder, num_queries, ext }
}

/// query multiset: duplicates, all in one coset, all distinct, unsorted
fn draw_positions(p: &FriParams) -> Vec<usize> {
    let n = p.domain();
    let k = p.num_queries;
    let mut rng = tape::fork(Stream::Workload, "fri.positions");
    let style = tape::w("fri.positions.style", 4);
    let mut v: Vec<usize> = match style {
        0 => (0..k).map(|_| rng.below(n as u64) as usize).collect(), // may repeat
        1 => {
            // all in one coset of the first folding
            let row = n / p.folding;
            let base = rng.below(row as u64) as usize;
            (0..k).map(|_| base + row * (rng.below(p.folding as u64) as usize)).collect()
        },
        2 => {
            // all distinct (as many as fit)
            let mut s = Vec::new();
            while s.len() < k.min(n) {
                let x = rng.below(n as u64) as usize;
                if !s.contains(&x) {
                    s.push(x);
                }
            }
            s
        },
        _ => {
            let x = rng.below(n as u64) as usize;
            vec![x; k] // one position repeated
        },
    };
    if tape::w("fri.positions.sorted", 2) == 0 {
        v.sort_unstable();
        v.dedup();
    }
    stats::sig(0x9000 + style);
    v
}

struct FriRun<E: FieldElement, H: ElementHasher<BaseField = E::BaseField>> {
    evaluations: Vec<E>,
    positions: Vec<usize>,
    commitments: Vec<H::Digest>,
    proof: FriProof,
}

/// the prover side: commit phase over the prover channel, then the query phase
fn fri_prove<B, E, H>(p: &FriParams, evaluations: Vec<E>, positions: Vec<usize>) -> Result<FriRun<E, H>, simcore::PanicInfo>
where
    B: StarkField,
    E: FieldElement<BaseField = B>,
    H: ElementHasher<BaseField = B>,
{
    set_role(PROVER);
    let options = FriOptions::new(p.blowup, p.folding, p.remainder);
    guard(|| {
        let mut channel = DefaultProverChannel::<E, H, RecordingCoin<H>>::new(p.domain(), p.num_queries.min(p.domain() - 1).max(1));
        let mut prover = FriProver::<E, DefaultProverChannel<E, H, RecordingCoin<H>>, H, MerkleTree<H>>::new(options);
        prover.build_layers(&mut channel, evaluations.clone());
        let proof = prover.build_proof(&positions);
        let commitments = channel.layer_commitments().to_vec();
        FriRun { evaluations, positions, commitments, proof }
    })
}

/// the verifier side, fed from a (possibly tampered) proof and commitment list
fn fri_verify<B, E, H>(
    p: &FriParams,
    proof: FriProof,
    commitments: Vec<H::Digest>,
    max_degree: usize,
    queried: &[E],
    positions: &[usize],
) -> Result<Result<(), String>, simcore::PanicInfo>
where
    B: StarkField,
    E: FieldElement<BaseField = B>,
    H: ElementHasher<BaseField = B>,
{
    set_role(VERIFIER);
    let options = FriOptions::new(p.blowup, p.folding, p.remainder);
    guard(|| {
        let mut channel = DefaultVerifierChannel::<E, H, MerkleTree<H>>::new(proof, commitments, p.domain(), p.folding).map_err(|e| format!("channel: {e}"))?;
        let mut coin = RecordingCoin::<H>::new(&[]);
        let verifier = FriVerifier::<E, _, H, RecordingCoin<H>, MerkleTree<H>>::new(&mut channel, &mut coin, options, max_degree).map_err(|e| format!("new: {e}"))?;
        verifier.verify(&mut channel, queried, positions).map_err(|e| format!("verify: {e}"))
    })
}

fn evaluate<B: StarkField, E: FieldElement<BaseField = B>>(poly: &[E], blowup_total: usize) -> Vec<E> {
    // evaluations over the domain of size poly.len() * blowup_total with the FRI domain offset
    if poly.len() == 1 {
        return vec![poly[0]; blowup_total];
    }
    let tw = fft::get_twiddles::<B>(poly.len());
    fft::evaluate_poly_with_offset(poly, &tw, B::GENERATOR, blowup_total)
}

// C08
// ================================================================================================

fn run_c08() -> Outcome {
    let threads = sched::begin(false);
    let combo = tape::w("fri.combo", 12) as usize;
    let field = crate::protocol::combo_field(combo);
    let p = draw_params(field, if combo >= 9 { 11 } else { 14 });
    stats::sig((combo as u64) << 16 | (p.log_domain as u64) << 8 | p.folding as u64);
    stats::sig(p.blowup as u64 * 512 + p.remainder as u64);
    stats::nontrivial();
    with_coin_hasher!(combo, H, B => match p.ext {
        1 => c08::<B, B, H>(&p, combo, threads),
        2 => c08::<B, QuadExtension<B>, H>(&p, combo, threads),
        _ => c08::<B, CubeExtension<B>, H>(&p, combo, threads),
    })
}

fn c08<B, E, H>(p: &FriParams, combo: usize, threads: usize) -> Outcome
where
    B: StarkField,
    E: FieldElement<BaseField = B>,
    H: ElementHasher<BaseField = B>,
{
    let size = p.bound_plus_1();
    let mut rng = tape::fork(Stream::Workload, "fri.poly");
    let mut poly: Vec<E> = rand_vec(&mut rng, size);
    let degree = match tape::w("fri.degree.class", 4) {
        0 => size - 1,
        1 => 0,
        2 => size / 2,
        _ => tape::w("fri.degree.any", size as u64) as usize,
    };
    for c in poly.iter_mut().skip(degree + 1) {
        *c = E::ZERO;
    }
    let evaluations = evaluate::<B, E>(&poly, p.blowup);
    let positions = draw_positions(p);
    stats::sample(|| format!("{{\"params\":{},\"degree\":{degree},\"positions\":{:?},\"threads\":{threads}}}", p.describe(combo), &positions[..positions.len().min(12)]));
    reset_histories();
    let ctx = || format!("{} degree={degree} positions={:?} threads={threads}", p.describe(combo), &positions[..positions.len().min(16)]);
    let contested = p.truncates();
    if contested {
        stats::probe("probe.contested_fri_truncation_config");
    }
    let run = match fri_prove::<B, E, H>(p, evaluations, positions.clone()) {
        Ok(r) => r,
        Err(pn) => {
            if contested {
                fail!("honest-fri-fails", "fri-degree-truncation-config", "prover panic {} :: {}", pn.msg, ctx());
            }
            if (pn.msg.contains("FailedToDrawFieldElement") || pn.msg.contains("failed to draw")) && crate::protocol::combo_field(combo) == 0 && p.ext == 3 {
                fail!("honest-fri-fails", "coin-draw-exhaustion", "prover panic {} :: {}", pn.msg, ctx());
            }
            fail!("fri-prover-panic", pn.site(), "{}:{}: {} :: {}", pn.file, pn.line, pn.msg, ctx());
        },
    };
    let queried: Vec<E> = run.positions.iter().map(|&i| run.evaluations[i]).collect();
    let max_degree = size - 1;
    // directly, and after the proof went through bytes
    let bytes = run.proof.to_bytes();
    let decoded = match guard(|| FriProof::read_from_bytes(&bytes)) {
        Ok(Ok(d)) => d,
        Ok(Err(e)) => fail!("fri-proof-does-not-decode", "FriProof", "{e} :: {}", ctx()),
        Err(pn) => fail!("panic", pn.site(), "decoding an honest FRI proof: {} :: {}", pn.msg, ctx()),
    };
    if decoded != run.proof {
        fail!("fri-proof-round-trip-differs", "FriProof", "{}", ctx());
    }
    for (label, proof) in [("in-memory", run.proof.clone()), ("decoded", decoded)] {
        match fri_verify::<B, E, H>(p, proof, run.commitments.clone(), max_degree, &queried, &run.positions) {
            Ok(Ok(())) => {},
            Ok(Err(e)) => {
                if contested {
                    fail!("honest-fri-fails", "fri-degree-truncation-config", "{e} :: {}", ctx());
                }
                if e.contains("failed to draw") && crate::protocol::combo_field(combo) == 0 && p.ext == 3 {
                    fail!("honest-fri-fails", "coin-draw-exhaustion", "{e} :: {}", ctx());
                }
                fail!("fri-verifier-rejects-honest-proof", e.split(':').take(2).collect::<Vec<_>>().join(":").chars().filter(|c| !c.is_ascii_digit()).collect::<String>(), "{label}: {e} :: {}", ctx());
            },
            Err(pn) => {
                if contested {
                    fail!("honest-fri-fails", "fri-degree-truncation-config", "verifier panic {} :: {}", pn.msg, ctx());
                }
                fail!("fri-verifier-panic", pn.site(), "{label}: {} :: {}", pn.msg, ctx());
            },
        }
    }
    // both channel ends drew the same challenges
    if let Some((_, what)) = first_divergence(&history(PROVER), &history(VERIFIER)) {
        // the verifier ran twice; compare against the first verifier run only
        let v = history(VERIFIER);
        let half = v.len() / 2;
        if first_divergence(&history(PROVER), &v[..half]).is_some() {
            fail!("fri-transcripts-diverge", "coin-history", "{what} :: {}", ctx());
        }
    }
    if sched::regions() > 0 {
        stats::probe("probe.ran_under_simulated_scheduler");
    }
    Ok(())
}

// C09
// ================================================================================================

fn run_c09() -> Outcome {
    let _threads = sched::begin(false);
    let combo = tape::w("fri.combo", 12) as usize;
    let field = crate::protocol::combo_field(combo);
    let p = draw_params(field, if combo >= 9 { 9 } else { 11 });
    stats::sig((combo as u64) << 16 | (p.log_domain as u64) << 8 | p.folding as u64);
    with_coin_hasher!(combo, H, B => match p.ext {
        1 => c09::<B, B, H>(&p, combo),
        2 => c09::<B, QuadExtension<B>, H>(&p, combo),
        _ => c09::<B, CubeExtension<B>, H>(&p, combo),
    })
}

fn elem_at<E: FieldElement>(bytes: &[u8], i: usize) -> E {
    E::read_from_bytes(&bytes[i * E::ELEMENT_BYTES..(i + 1) * E::ELEMENT_BYTES]).expect("element bytes")
}

fn c09<B, E, H>(p: &FriParams, combo: usize) -> Outcome
where
    B: StarkField,
    E: FieldElement<BaseField = B>,
    H: ElementHasher<BaseField = B>,
{
    if p.truncates() {
        return Ok(());
    }
    let size = p.bound_plus_1();
    let domain = p.domain();
    let mut rng = tape::fork(Stream::Workload, "fri.poly");
    let kind = tape::weighted(Stream::Faults, "fri.fault", &[0, 3, 2, 2, 3, 2, 2, 2, 3, 2, 2, 2, 2, 2, 3]);
    let names = ["none", "high_degree", "random_function", "understated_bound", "layer_value_sub", "layer_proof_node_sub", "remainder_sub_plain", "remainder_sub_degree_raising", "remainder_sub_adaptive", "layer_drop", "layer_dup", "layer_swap", "commitment_sub", "remainder_sub_adaptive_without_its_commitment", "queried_evaluation_sub"];
    let name = names[kind];
    // the data the prover commits to
    let mut max_degree = size - 1;
    let evaluations: Vec<E> = match kind {
        1 => {
            // non-zero coefficient above the bound (domain holds degrees up to domain - 1)
            let total = size * 2.min(p.blowup);
            let mut poly: Vec<E> = rand_vec(&mut rng, total);
            let hi = size + tape::f("fri.high.extra", (total - size) as u64) as usize;
            for c in poly.iter_mut().skip(hi + 1) {
                *c = E::ZERO;
            }
            poly[hi] = rand_nonzero(&mut rng);
            evaluate::<B, E>(&poly, domain / total)
        },
        2 => rand_vec(&mut rng, domain),
        _ => {
            let poly: Vec<E> = rand_vec(&mut rng, size);
            evaluate::<B, E>(&poly, p.blowup)
        },
    };
    if kind == 3 {
        // the verifier is told a bound below the true degree (the polynomial has full degree)
        if size < 2 {
            return Ok(());
        }
        max_degree = tape::f("fri.understate", (size - 1) as u64) as usize;
    }
    let positions = draw_positions(p);
    reset_histories();
    let ctx = || format!("{name} :: {} positions={:?}", p.describe(combo), &positions[..positions.len().min(16)]);
    let run = match fri_prove::<B, E, H>(p, evaluations, positions.clone()) {
        Ok(r) => r,
        // a prover that cannot even build the proof keeps the bad data out
        Err(_) => return Ok(()),
    };
    let ds = H::Digest::default().to_bytes().len();
    let mut commitments = run.commitments.clone();
    let bytes = run.proof.to_bytes();
    let mut img = match FriImg::parse(&bytes, ds) {
        Some(i) if i.encode() == bytes => i,
        _ => simcore::harness_error("wire model does not re-encode an honest FRI proof"),
    };
    let eb = E::ELEMENT_BYTES;
    let mut frng = tape::fork(Stream::Faults, "fri.fault.values");
    match kind {
        1..=3 => {},
        4 => {
            if img.layers.is_empty() {
                return Ok(());
            }
            let l = tape::f("fri.layer", img.layers.len() as u64) as usize;
            let n = img.layers[l].values.len() / eb;
            let i = tape::f("fri.value", n as u64) as usize;
            let v: E = elem_at::<E>(&img.layers[l].values, i) + rand_nonzero::<E>(&mut frng);
            img.layers[l].values[i * eb..(i + 1) * eb].copy_from_slice(&v.to_bytes());
        },
        5 => {
            let cands: Vec<(usize, usize)> = img
                .layers
                .iter()
                .enumerate()
                .flat_map(|(l, lay)| lay.paths.vecs.iter().enumerate().filter(|(_, v)| !v.1.is_empty()).map(move |(vi, _)| (l, vi)))
                .collect();
            if cands.is_empty() {
                return Ok(());
            }
            let (l, vi) = cands[tape::f("fri.node", cands.len() as u64) as usize];
            let d = &mut img.layers[l].paths.vecs[vi].1[0];
            d[0] ^= 1;
        },
        6 => {
            let n = img.remainder.len() / eb;
            let i = tape::f("fri.rem.coef", n as u64) as usize;
            let v: E = elem_at::<E>(&img.remainder, i) + rand_nonzero::<E>(&mut frng);
            img.remainder[i * eb..(i + 1) * eb].copy_from_slice(&v.to_bytes());
        },
        7 => {
            // one more (leading, non-zero) coefficient than the degree bound allows; the count must
            // stay a power of two for the proof to decode
            let n = img.remainder.len() / eb;
            let mut v: Vec<u8> = Vec::new();
            for _ in 0..n {
                v.extend_from_slice(&rand_nonzero::<E>(&mut frng).to_bytes());
            }
            v.extend_from_slice(&img.remainder);
            img.remainder = v;
            img.fix_lengths();
        },
        8 | 13 => {
            if kind == 13 {
                // the remainder commitment never reaches the verifier (lost message)
                commitments.pop();
            }
            // R' = R + c * prod (x - x_i) over the distinct last-layer query points: a different
            // polynomial within the degree bound that agrees with every folded evaluation
            let n = img.remainder.len() / eb;
            let mut pos = run.positions.clone();
            let mut dsize = domain;
            let layers = FriOptions::new(p.blowup, p.folding, p.remainder).num_fri_layers(domain);
            for _ in 0..layers {
                pos = fold_positions(&pos, dsize, p.folding);
                dsize /= p.folding;
            }
            pos.sort_unstable();
            pos.dedup();
            if pos.len() >= n {
                // not enough freedom: every such polynomial would exceed the degree bound
                stats::count("fault.remainder_sub_adaptive_not_possible", 1);
                return Ok(());
            }
            let g = B::get_root_of_unity(dsize.ilog2());
            // coefficients lowest degree first
            let mut prod: Vec<E> = vec![E::ONE];
            for &q in pos.iter() {
                let x = E::from(B::GENERATOR * g.exp_vartime((q as u64).into()));
                let mut next = vec![E::ZERO; prod.len() + 1];
                for (i, c) in prod.iter().enumerate() {
                    next[i + 1] += *c;
                    next[i] -= *c * x;
                }
                prod = next;
            }
            let c: E = rand_nonzero(&mut frng);
            // the remainder travels highest degree first
            let mut coeffs: Vec<E> = (0..n).map(|i| elem_at::<E>(&img.remainder, i)).collect();
            coeffs.reverse();
            for (i, pc) in prod.iter().enumerate() {
                coeffs[i] += *pc * c;
            }
            coeffs.reverse();
            let mut v = Vec::new();
            for e in coeffs {
                v.extend_from_slice(&e.to_bytes());
            }
            img.remainder = v;
            stats::probe("probe.adaptive_remainder_built");
        },
        9 => {
            if img.layers.is_empty() {
                return Ok(());
            }
            let l = tape::f("fri.layer", img.layers.len() as u64) as usize;
            img.layers.remove(l);
            img.fix_lengths();
        },
        10 => {
            if img.layers.is_empty() {
                return Ok(());
            }
            let l = tape::f("fri.layer", img.layers.len() as u64) as usize;
            let d = img.layers[l].clone();
            img.layers.insert(l, d);
            img.fix_lengths();
        },
        11 => {
            if img.layers.len() < 2 {
                return Ok(());
            }
            let l = tape::f("fri.layer", (img.layers.len() - 1) as u64) as usize;
            img.layers.swap(l, l + 1);
        },
        14 => {},
        _ => {
            let i = tape::f("fri.commitment", commitments.len() as u64) as usize;
            commitments[i] = H::hash(&frng.next_u64().to_le_bytes());
        },
    }
    stats::count(&format!("fault.{name}"), 1);
    stats::sig(kind as u64);
    stats::nontrivial();
    stats::sample(|| format!("{{\"fault\":\"{name}\",\"params\":{}}}", p.describe(combo)));
    let tampered = img.encode();
    let proof = match guard(|| FriProof::read_from_bytes(&tampered)) {
        Ok(Ok(pr)) => pr,
        Ok(Err(_)) => {
            stats::count("outcome.tampered_proof_does_not_decode", 1);
            return Ok(());
        },
        Err(_) => {
            stats::count("outcome.panic_instead_of_error", 1);
            return Ok(());
        },
    };
    let mut queried: Vec<E> = run.positions.iter().map(|&i| run.evaluations[i]).collect();
    if kind == 14 {
        // the evaluation the verifier was given for one queried position (in a STARK: the DEEP
        // composition value it computed itself) differs from what the first layer commits to; every
        // occurrence of that position gets the same wrong value, so the claim is self-consistent
        let k = tape::f("fri.queried.index", run.positions.len() as u64) as usize;
        let target = run.positions[k];
        let delta: E = rand_nonzero(&mut frng);
        let coset = (domain / p.folding).max(1);
        let first_in_coset = run.positions.iter().position(|&q| q % coset == target % coset) == run.positions.iter().position(|&q| q == target);
        if !first_in_coset {
            stats::probe("probe.tampered_query_is_not_the_first_of_its_coset");
        }
        for (q, v) in run.positions.iter().zip(queried.iter_mut()) {
            if *q == target {
                *v += delta;
            }
        }
    }
    match fri_verify::<B, E, H>(p, proof, commitments, max_degree, &queried, &run.positions) {
        Ok(Ok(())) => fail!("fri-accepts-bad-data", name, "{}", ctx()),
        Ok(Err(_)) => {
            stats::count("outcome.rejected", 1);
            Ok(())
        },
        Err(pn) => {
            // a crash is not acceptance; crash-freedom is C05's subject
            stats::count("outcome.panic_instead_of_error", 1);
            stats::count(&format!("panic_site.{}", pn.site()), 1);
            Ok(())
        },
    }
}


// C07: FRI proofs as values
// ================================================================================================

/// `FriProof` values can only be built by the FRI prover; this scenario produces them over the
/// whole parameter range - biased to many queries, folding 16 and wide elements, where a layer's
/// values or openings exceed 64 KiB - and sends each through its own encoding: slice decode and
/// streaming decode over a chunked stream give an equal value with nothing left over.
pub fn c07_fri_values() -> Outcome {
    let _threads = sched::begin(false);
    let combo = tape::w("fri.combo", 12) as usize;
    let field = crate::protocol::combo_field(combo);
    let mut p = draw_params(field, if combo >= 9 { 10 } else { 14 });
    if tape::w("c07.fri.big", 2) == 0 {
        p.num_queries = 255;
        p.folding = [8usize, 16][tape::w("c07.fri.big.folding", 2) as usize];
        p.log_domain = p.log_domain.max(12).min(if combo >= 9 { 12 } else { 14 });
        p.blowup = p.blowup.min(8);
        p.ext = if field == 2 { 2 } else { 2 + tape::w("c07.fri.big.ext", 2) as u8 };
    }
    stats::sig((combo as u64) << 16 | (p.log_domain as u64) << 8 | p.folding as u64);
    with_coin_hasher!(combo, H, B => match p.ext {
        1 => c07_fri::<B, B, H>(&p, combo),
        2 => c07_fri::<B, QuadExtension<B>, H>(&p, combo),
        _ => c07_fri::<B, CubeExtension<B>, H>(&p, combo),
    })
}

fn c07_fri<B, E, H>(p: &FriParams, combo: usize) -> Outcome
where
    B: StarkField,
    E: FieldElement<BaseField = B>,
    H: ElementHasher<BaseField = B>,
{
    use utils::{ByteReader, ReadAdapter};
    if p.truncates() {
        return Ok(());
    }
    let size = p.bound_plus_1();
    let mut rng = tape::fork(Stream::Workload, "fri.poly");
    let poly: Vec<E> = rand_vec(&mut rng, size);
    let evaluations = evaluate::<B, E>(&poly, p.blowup);
    let positions = draw_positions(p);
    reset_histories();
    // a prover that cannot build the proof is C08's subject
    let Ok(run) = fri_prove::<B, E, H>(p, evaluations, positions) else { return Ok(()) };
    let bytes = run.proof.to_bytes();
    stats::nontrivial();
    stats::count("steps.fri_proof_bytes", bytes.len() as u64);
    let ctx = || format!("{} ({} bytes)", p.describe(combo), bytes.len());
    if bytes.len() > (1 << 16) {
        stats::probe("probe.fri_proof_larger_than_64KiB");
    }
    match guard(|| FriProof::read_from_bytes(&bytes)) {
        Ok(Ok(d)) if d == run.proof => {},
        Ok(Ok(_)) => fail!("decoded-value-differs", "FriProof", "{}", ctx()),
        Ok(Err(e)) => fail!("decode-error-on-own-encoding", "FriProof", "{e} :: {}", ctx()),
        Err(pn) => fail!("panic", pn.site(), "decoding an honest FRI proof: {} :: {}", pn.msg, ctx()),
    }
    let mut sim = crate::streams::SimReader::new(bytes.clone(), false);
    match guard(|| {
        let mut r = ReadAdapter::new(&mut sim);
        let d = FriProof::read_from(&mut r);
        (d, r.has_more_bytes())
    }) {
        Ok((Ok(d), false)) if d == run.proof => {},
        Ok((Ok(_), true)) => fail!("bytes-left-over", "FriProof/ReadAdapter", "{}", ctx()),
        Ok((Ok(_), false)) => fail!("decoded-value-differs", "FriProof/ReadAdapter", "{}", ctx()),
        Ok((Err(e), _)) => fail!("decode-error-on-own-encoding", "FriProof/ReadAdapter", "{e} :: {}", ctx()),
        Err(pn) => fail!("panic", pn.site(), "decoding an honest FRI proof through ReadAdapter: {} :: {}", pn.msg, ctx()),
    }
    if run.proof.to_bytes() != bytes {
        fail!("re-encoding-differs", "FriProof", "{}", ctx());
    }
    Ok(())
}

#[allow(dead_code)]
fn unused<E: FieldElement>() -> E {
    let mut r = simcore::rng::Rng::new(1);
    rand_elem::<E>(&mut r)
}
