//! C03 - a Byzantine prover: runs the honest prover, replays the public-coin transcript from the
//! proof alone to learn the challenges (out-of-domain point, DEEP coefficients, FRI alphas, query
//! positions), then substitutes data revealed after the positions were fixed, in the strongest
//! way the remaining (non-commitment) checks allow. The verifier must reject.

use air::{
    proof::{merge_ood_evaluations, Proof, Queries},
    Air, DeepCompositionCoefficients, FieldExtension,
};
use crypto::{
    hashers::{Blake3_192, Blake3_256, Rp62_248, Rp64_256, RpJive64_256, Sha3_256},
    DefaultRandomCoin, ElementHasher, Hasher, MerkleTree, RandomCoin,
};
use fri::folding::fold_positions;
use math::{
    fields::{CubeExtension, QuadExtension},
    ExtensibleField, FieldElement, StarkField, ToElements,
};
use simcore::{
    driver::Scenario,
    fail, guard, stats,
    tape::{self, Stream},
    Outcome,
};
use utils::{Deserializable, Serializable};
use verifier::AcceptableOptions;

use crate::{
    c20::COIN_NAMES,
    fields::{rand_nonzero, F128, F62, F64},
    genair::{GenAir, GenInputs},
    protocol::{draw_instance, set_role, Instance, Limits, RecordingCoin, VERIFIER},
    sched,
    transport::{honest, Honest},
    wire::Img,
    with_coin_hasher,
};

pub fn scenarios() -> Vec<Scenario> {
    let mut v = vec![Scenario::new(
        "C03",
        "byzantine-prover",
        "honest proof -> transcript replay -> substitution of queried trace rows (main / auxiliary), constraint-composition rows, FRI layer values or the FRI remainder, plain and adaptive (DEEP-composition preserving, fold preserving, remainder agreeing at every queried point) -> verify must return Err",
        run_c03,
        4_000,
        120_000,
    )];
    for s in v.iter_mut() {
        s.watchdog_s = 120;
    }
    v
}

const LIM: Limits = Limits { max_log_n: 7, max_log_lde: 11, max_width: 16, max_grinding: 4, allow_meta_pad: false };

fn run_c03() -> Outcome {
    let _threads = sched::begin(true);
    let mut inst = draw_instance(&LIM);
    // favour shapes in which the adaptive substitutions exist: few queries, large remainders,
    // folding >= 4, several columns
    if tape::w("c03.bias", 2) == 0 {
        inst.opts.queries = 1 + tape::w("c03.queries", 6) as usize;
        inst.opts.remainder = [31usize, 63, 127, 255][tape::w("c03.remainder", 4) as usize];
        inst.opts.folding = [4usize, 8, 16][tape::w("c03.folding", 3) as usize];
        inst.main_width = inst.main_width.max(4);
    }
    stats::sig(inst.class_sig());
    with_coin_hasher!(inst.combo, H, B => match inst.opts.extension {
        1 => c03::<B, B, H>(&inst),
        2 => c03::<B, QuadExtension<B>, H>(&inst),
        _ => c03::<B, CubeExtension<B>, H>(&inst),
    })
}

/// what an adversary learns by replaying the public-coin transcript of a proof
struct Challenges<E: FieldElement> {
    deep: DeepCompositionCoefficients<E>,
    alphas: Vec<E>,
    positions: Vec<usize>,
}

fn replay_transcript<B, E, H>(air: &GenAir<B>, proof: &Proof, inputs: &GenInputs<B>) -> Result<Challenges<E>, String>
where
    B: StarkField + ExtensibleField<2> + ExtensibleField<3> + 'static,
    E: FieldElement<BaseField = B>,
    H: ElementHasher<BaseField = B>,
{
    let mut seed = proof.context.to_elements();
    seed.append(&mut inputs.to_elements());
    let mut coin = DefaultRandomCoin::<H>::new(&seed);
    let info = proof.context.trace_info();
    let lde = air.lde_domain_size();
    let fri_opts = air.options().to_fri_options();
    let (trace_roots, constraint_root, fri_roots) =
        proof.commitments.clone().parse::<H>(info.num_segments(), fri_opts.num_fri_layers(lde)).map_err(|e| e.to_string())?;
    coin.reseed(trace_roots[0]);
    if info.is_multi_segment() {
        let _rands = air.get_aux_rand_elements::<E, _>(&mut coin).map_err(|e| e.to_string())?;
        coin.reseed(trace_roots[1]);
    }
    let _cc = air.get_constraint_composition_coefficients::<E, _>(&mut coin).map_err(|e| e.to_string())?;
    coin.reseed(constraint_root);
    let _z: E = coin.draw().map_err(|e| e.to_string())?;
    let ncomp = air.context().num_constraint_composition_columns();
    let (tf, qf) = proof.ood_frame.clone().parse::<E>(info.main_trace_width(), info.aux_segment_width(), ncomp).map_err(|e| e.to_string())?;
    coin.reseed(H::hash_elements(&merge_ood_evaluations(&tf, &qf)));
    let deep = air.get_deep_composition_coefficients::<E, _>(&mut coin).map_err(|e| e.to_string())?;
    let mut alphas = Vec::new();
    for r in fri_roots.iter() {
        coin.reseed(*r);
        alphas.push(coin.draw::<E>().map_err(|e| e.to_string())?);
    }
    let mut positions = coin.draw_integers(air.options().num_queries(), lde, proof.pow_nonce).map_err(|e| e.to_string())?;
    positions.sort_unstable();
    positions.dedup();
    Ok(Challenges { deep, alphas, positions })
}

/// solves sum_k d_k * c_k = target for d_k in the base field (c_k, target in E, |c| = extension
/// degree): Gaussian elimination on base-field coordinates
fn solve_base<B: StarkField, E: FieldElement<BaseField = B>>(cs: &[E], target: E) -> Option<Vec<B>> {
    let m = E::EXTENSION_DEGREE;
    if cs.len() != m {
        return None;
    }
    // augmented matrix rows = coordinates
    let mut a: Vec<Vec<B>> = (0..m).map(|r| (0..m).map(|k| cs[k].base_element(r)).chain(std::iter::once(target.base_element(r))).collect()).collect();
    for col in 0..m {
        let piv = (col..m).find(|&r| a[r][col] != B::ZERO)?;
        a.swap(col, piv);
        let inv = a[col][col].inv();
        for j in col..=m {
            a[col][j] *= inv;
        }
        for r in 0..m {
            if r != col && a[r][col] != B::ZERO {
                let f = a[r][col];
                for j in col..=m {
                    let t = a[col][j] * f;
                    a[r][j] -= t;
                }
            }
        }
    }
    Some((0..m).map(|r| a[r][m]).collect())
}

fn c03<B, E, H>(inst: &Instance) -> Outcome
where
    B: StarkField + ExtensibleField<2> + ExtensibleField<3> + 'static,
    E: FieldElement<BaseField = B>,
    H: ElementHasher<BaseField = B> + Sync + Send,
{
    let Some(h): Option<Honest<B>> = honest::<B, H>(inst) else { return Ok(()) };
    let info = h.proof.context.trace_info().clone();
    let air = GenAir::<B>::new(info.clone(), h.inputs.clone(), h.proof.options().clone());
    let ch: Challenges<E> = match guard(|| replay_transcript::<B, E, H>(&air, &h.proof, &h.inputs)) {
        Ok(Ok(c)) => c,
        Ok(Err(e)) => simcore::harness_error(&format!("transcript replay failed on an honest proof: {e}")),
        Err(p) => fail!("panic", p.site(), "transcript replay through public APIs: {}", p.msg),
    };
    let nq = ch.positions.len();
    if nq != h.proof.num_unique_queries as usize {
        simcore::harness_error("transcript replay found a different number of unique positions than the proof states");
    }
    let lde = air.lde_domain_size();
    let ncomp = air.context().num_constraint_composition_columns();
    let mw = info.main_trace_width();
    let aw = info.aux_segment_width();
    let deg = E::EXTENSION_DEGREE;
    let mut frng = tape::fork(Stream::Faults, "c03.values");
    let mut proof = h.proof.clone();
    let ds = H::Digest::default().to_bytes().len();
    let kind = tape::weighted(Stream::Faults, "c03.fault", &[0, 2, 4, 3, 2, 3, 2, 3, 2, 4]);
    let names = ["none", "main_row_plain", "main_row_deep_preserving", "aux_row_deep_preserving", "constraint_row_plain", "constraint_row_deep_preserving", "fri_layer_value_plain", "fri_layer_fold_preserving", "remainder_plain", "remainder_agreeing_at_queries"];
    let name = names[kind];
    let row = tape::f("c03.row", nq as u64) as usize;
    let mut adaptive = false;
    match kind {
        1 | 2 => {
            let (op, table) = proof.trace_queries[0].clone().parse::<B, H, MerkleTree<H>>(lde, nq, mw).expect("main queries parse");
            let mut rows: Vec<Vec<B>> = table.rows().map(|r| r.to_vec()).collect();
            if kind == 1 {
                let c = tape::f("c03.col", mw as u64) as usize;
                rows[row][c] += rand_nonzero::<B>(&mut frng);
            } else {
                // deltas d_0 = 1 on column a, d_k on `deg` further columns with sum d_k cc_k = 0
                if mw < deg + 1 {
                    return Ok(());
                }
                let start = tape::f("c03.colstart", (mw - deg) as u64) as usize;
                let cols: Vec<usize> = (start..=start + deg).collect();
                let d0: B = rand_nonzero(&mut frng);
                let target = -(ch.deep.trace[cols[0]] * E::from(d0));
                let cs: Vec<E> = cols[1..].iter().map(|&c| ch.deep.trace[c]).collect();
                let Some(sol) = solve_base::<B, E>(&cs, target) else { return Ok(()) };
                rows[row][cols[0]] += d0;
                let mut check = ch.deep.trace[cols[0]] * E::from(d0);
                for (k, &c) in cols[1..].iter().enumerate() {
                    rows[row][c] += sol[k];
                    check += ch.deep.trace[c] * E::from(sol[k]);
                }
                if check != E::ZERO {
                    simcore::harness_error("DEEP-preserving substitution does not preserve the DEEP value");
                }
                adaptive = true;
            }
            proof.trace_queries[0] = Queries::new::<H, B, MerkleTree<H>>(op, rows);
        },
        3 => {
            if aw < 2 {
                return Ok(());
            }
            let (op, table) = proof.trace_queries[1].clone().parse::<E, H, MerkleTree<H>>(lde, nq, aw).expect("aux queries parse");
            let mut rows: Vec<Vec<E>> = table.rows().map(|r| r.to_vec()).collect();
            let a = tape::f("c03.col", (aw - 1) as u64) as usize;
            let b = a + 1;
            let da: E = rand_nonzero(&mut frng);
            let db = -(da * ch.deep.trace[mw + a]) / ch.deep.trace[mw + b];
            rows[row][a] += da;
            rows[row][b] += db;
            adaptive = true;
            proof.trace_queries[1] = Queries::new::<H, E, MerkleTree<H>>(op, rows);
        },
        4 | 5 => {
            let (op, table) = proof.constraint_queries.clone().parse::<E, H, MerkleTree<H>>(lde, nq, ncomp).expect("constraint queries parse");
            let mut rows: Vec<Vec<E>> = table.rows().map(|r| r.to_vec()).collect();
            if kind == 4 {
                let c = tape::f("c03.col", ncomp as u64) as usize;
                rows[row][c] += rand_nonzero::<E>(&mut frng);
            } else if ncomp >= 2 {
                let a = tape::f("c03.col", (ncomp - 1) as u64) as usize;
                let da: E = rand_nonzero(&mut frng);
                let db = -(da * ch.deep.constraints[a]) / ch.deep.constraints[a + 1];
                rows[row][a] += da;
                rows[row][a + 1] += db;
                adaptive = true;
            } else {
                // one composition column: compensate in `deg` main trace columns of the same row
                if mw < deg {
                    return Ok(());
                }
                let dh: E = rand_nonzero(&mut frng);
                let target = -(dh * ch.deep.constraints[0]);
                let cs: Vec<E> = (0..deg).map(|c| ch.deep.trace[c]).collect();
                let Some(sol) = solve_base::<B, E>(&cs, target) else { return Ok(()) };
                rows[row][0] += dh;
                let (top, ttable) = proof.trace_queries[0].clone().parse::<B, H, MerkleTree<H>>(lde, nq, mw).expect("main queries parse");
                let mut trows: Vec<Vec<B>> = ttable.rows().map(|r| r.to_vec()).collect();
                for (c, d) in sol.iter().enumerate() {
                    trows[row][c] += *d;
                }
                proof.trace_queries[0] = Queries::new::<H, B, MerkleTree<H>>(top, trows);
                adaptive = true;
            }
            proof.constraint_queries = Queries::new::<H, E, MerkleTree<H>>(op, rows);
        },
        6..=9 => {
            let bytes = proof.to_bytes();
            let Some(mut img) = Img::parse(&bytes, ds) else { simcore::harness_error("wire model cannot parse an honest proof") };
            let eb = E::ELEMENT_BYTES;
            let get = |b: &[u8], i: usize| E::read_from_bytes(&b[i * eb..(i + 1) * eb]).expect("element");
            let folding = air.options().to_fri_options().folding_factor();
            if kind == 6 || kind == 7 {
                if img.fri_layers.is_empty() {
                    return Ok(());
                }
                let l = if kind == 7 { 0 } else { tape::f("c03.layer", img.fri_layers.len() as u64) as usize };
                let vals = &mut img.fri_layers[l].values;
                let ncosets = vals.len() / eb / folding;
                let coset = tape::f("c03.coset", ncosets as u64) as usize;
                if kind == 6 {
                    let j = tape::f("c03.slot", folding as u64) as usize;
                    let i = coset * folding + j;
                    let v = get(vals, i) + rand_nonzero::<E>(&mut frng);
                    vals[i * eb..(i + 1) * eb].copy_from_slice(&v.to_bytes());
                } else {
                    // layer 0: change two values that are not checked against queried evaluations
                    // so that the coset's interpolant keeps its value at alpha_0
                    let row_len = lde / folding;
                    let folded = fold_positions(&ch.positions, lde, folding);
                    let fpos = folded[coset.min(folded.len() - 1)];
                    let coset = folded.iter().position(|&f| f == fpos).unwrap();
                    let checked: Vec<usize> = ch.positions.iter().filter(|&&p| p % row_len == fpos).map(|&p| p / row_len).collect();
                    let free: Vec<usize> = (0..folding).filter(|j| !checked.contains(j)).collect();
                    if free.len() < 2 {
                        return Ok(());
                    }
                    let (ja, jb) = (free[0], free[1]);
                    // x coordinates of the coset
                    let g = B::get_root_of_unity(lde.ilog2());
                    let xe = g.exp_vartime((fpos as u64).into()) * B::GENERATOR;
                    let xs: Vec<E> = (0..folding).map(|j| E::from(xe * g.exp_vartime(((row_len * j) as u64).into()))).collect();
                    let alpha = ch.alphas[0];
                    let lag = |j: usize| -> E {
                        let mut num = E::ONE;
                        let mut den = E::ONE;
                        for (k, &xk) in xs.iter().enumerate() {
                            if k != j {
                                num *= alpha - xk;
                                den *= xs[j] - xk;
                            }
                        }
                        num / den
                    };
                    let (la, lb) = (lag(ja), lag(jb));
                    if lb == E::ZERO {
                        return Ok(());
                    }
                    let da: E = rand_nonzero(&mut frng);
                    let db = -(da * la) / lb;
                    for (j, d) in [(ja, da), (jb, db)] {
                        let i = coset * folding + j;
                        let v = get(vals, i) + d;
                        vals[i * eb..(i + 1) * eb].copy_from_slice(&v.to_bytes());
                    }
                    adaptive = true;
                }
            } else {
                let n = img.remainder.len() / eb;
                if kind == 8 {
                    let i = tape::f("c03.coef", n as u64) as usize;
                    let v = get(&img.remainder, i) + rand_nonzero::<E>(&mut frng);
                    img.remainder[i * eb..(i + 1) * eb].copy_from_slice(&v.to_bytes());
                } else {
                    // R' = R + c * prod (x - x_i) over the distinct last-layer query points
                    let fri_opts = air.options().to_fri_options();
                    let mut pos = ch.positions.clone();
                    let mut dsize = lde;
                    for _ in 0..fri_opts.num_fri_layers(lde) {
                        pos = fold_positions(&pos, dsize, folding);
                        dsize /= folding;
                    }
                    pos.sort_unstable();
                    pos.dedup();
                    if pos.len() >= n {
                        stats::count("fault.remainder_agreeing_at_queries_not_possible", 1);
                        return Ok(());
                    }
                    let g = B::get_root_of_unity(dsize.ilog2());
                    let mut prod: Vec<E> = vec![E::ONE];
                    for &q in pos.iter() {
                        let x = E::from(B::GENERATOR * g.exp_vartime((q as u64).into()));
                        let mut next = vec![E::ZERO; prod.len() + 1];
                        for (i, c) in prod.iter().enumerate() {
                            next[i + 1] += *c;
                            next[i] -= *c * x;
                        }
                        prod = next;
                    }
                    let c: E = rand_nonzero(&mut frng);
                    let mut coeffs: Vec<E> = (0..n).map(|i| get(&img.remainder, i)).collect();
                    coeffs.reverse();
                    for (i, pc) in prod.iter().enumerate() {
                        coeffs[i] += *pc * c;
                    }
                    coeffs.reverse();
                    let mut v = Vec::new();
                    for e in coeffs {
                        v.extend_from_slice(&e.to_bytes());
                    }
                    img.remainder = v;
                    adaptive = true;
                }
            }
            proof = match Proof::from_bytes(&img.encode()) {
                Ok(p) => p,
                Err(e) => simcore::harness_error(&format!("substituted proof does not decode: {e}")),
            };
        },
        _ => return Ok(()),
    }
    stats::count(&format!("fault.{name}"), 1);
    if adaptive {
        stats::count("probe.adaptive_substitutions", 1);
    }
    stats::sig(kind as u64);
    stats::nontrivial();
    stats::sample(|| format!("{{\"fault\":\"{name}\",\"adaptive\":{adaptive},\"instance\":{}}}", inst.describe()));
    if proof == h.proof {
        return Ok(());
    }
    set_role(VERIFIER);
    let policy = AcceptableOptions::OptionSet(vec![h.proof.options().clone()]);
    let r = guard(|| verifier::verify::<GenAir<B>, H, RecordingCoin<H>, MerkleTree<H>>(proof, h.inputs.clone(), &policy));
    match r {
        Ok(Ok(())) => fail!("accepts-data-differing-from-commitment", name, "{name} (adaptive: {adaptive}) accepted :: {}", inst.describe()),
        Ok(Err(_)) => {
            stats::count("outcome.rejected", 1);
            Ok(())
        },
        Err(_) => {
            stats::count("outcome.panic_instead_of_error", 1);
            Ok(())
        },
    }
}

#[allow(dead_code)]
fn unused() -> (&'static [&'static str], FieldExtension) {
    (&COIN_NAMES, FieldExtension::None)
}
