//! Field helpers shared by the engines: element generation from the tape and dispatch over the
//! supported (base field, extension) combinations.

use math::{
    fields::{f128, f62, f64, CubeExtension, QuadExtension},
    FieldElement,
};
use simcore::rng::Rng;

pub type F62 = f62::BaseElement;
pub type F64 = f64::BaseElement;
pub type F128 = f128::BaseElement;

pub const FIELD_NAMES: [&str; 8] = ["f62", "f62^2", "f62^3", "f64", "f64^2", "f64^3", "f128", "f128^2"];

/// expands `$body` with `$E` bound to the element type number `$idx` (see FIELD_NAMES)
#[macro_export]
macro_rules! with_element_type {
    ($idx:expr, $E:ident => $body:expr) => {
        match $idx {
            0 => { type $E = $crate::fields::F62; $body },
            1 => { type $E = math::fields::QuadExtension<$crate::fields::F62>; $body },
            2 => { type $E = math::fields::CubeExtension<$crate::fields::F62>; $body },
            3 => { type $E = $crate::fields::F64; $body },
            4 => { type $E = math::fields::QuadExtension<$crate::fields::F64>; $body },
            5 => { type $E = math::fields::CubeExtension<$crate::fields::F64>; $body },
            6 => { type $E = $crate::fields::F128; $body },
            _ => { type $E = math::fields::QuadExtension<$crate::fields::F128>; $body },
        }
    };
}

/// expands `$body` with `$B` bound to base field number `$idx` (0 f62, 1 f64, 2 f128)
#[macro_export]
macro_rules! with_base_field {
    ($idx:expr, $B:ident => $body:expr) => {
        match $idx {
            0 => { type $B = $crate::fields::F62; $body },
            1 => { type $B = $crate::fields::F64; $body },
            _ => { type $B = $crate::fields::F128; $body },
        }
    };
}

#[allow(dead_code)]
pub type Q<B> = QuadExtension<B>;
#[allow(dead_code)]
pub type C<B> = CubeExtension<B>;

/// a uniformly random element (rejection sampling on the element's own byte decoder)
pub fn rand_elem<E: FieldElement>(rng: &mut Rng) -> E {
    let mut buf = [0u8; 64];
    loop {
        for c in buf[..E::ELEMENT_BYTES].chunks_mut(8) {
            let v = rng.next_u64().to_le_bytes();
            c.copy_from_slice(&v[..c.len()]);
        }
        if let Some(e) = E::from_random_bytes(&buf[..E::ELEMENT_BYTES]) {
            return e;
        }
    }
}

pub fn rand_nonzero<E: FieldElement>(rng: &mut Rng) -> E {
    loop {
        let e = rand_elem::<E>(rng);
        if e != E::ZERO {
            return e;
        }
    }
}

pub fn rand_vec<E: FieldElement>(rng: &mut Rng, n: usize) -> Vec<E> {
    (0..n).map(|_| rand_elem(rng)).collect()
}

/// short printable form of an element
pub fn show<E: FieldElement>(e: &E) -> String {
    let s = format!("{e}");
    if s.len() > 50 {
        format!("{}..", &s[..50])
    } else {
        s
    }
}
