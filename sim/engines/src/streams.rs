//! The stream seam (S4): simulated `std::io::Read` / `std::io::Write` endpoints whose chunking,
//! short transfers, interruptions, errors and premature end-of-stream are decided by the tape.

use std::io::{self, ErrorKind, Read, Write};

use simcore::{
    stats,
    tape::{self, Stream},
};

/// Serves a byte string; every `read` call returns a tape-chosen prefix of what is available.
pub struct SimReader {
    data: Vec<u8>,
    pos: usize,
    /// fault configuration: interruptions, hard errors, premature EOF
    faults: bool,
    /// chunking style fixed per stream (swarm): 0 whole, 1 one byte, 2 tiny, 3 mixed, 4 boundary
    style: u64,
    pub calls: u64,
    pub faults_fired: u64,
    dead: bool,
}

impl SimReader {
    pub fn new(data: Vec<u8>, faults: bool) -> Self {
        let style = tape::weighted(Stream::Schedule, "reader.style", &[2, 2, 2, 4, 3]) as u64;
        stats::sig(0x5700 + style);
        SimReader { data, pos: 0, faults, style, calls: 0, faults_fired: 0, dead: false }
    }
    pub fn consumed(&self) -> usize {
        self.pos
    }
}

impl Read for SimReader {
    fn read(&mut self, buf: &mut [u8]) -> io::Result<usize> {
        self.calls += 1;
        stats::count("steps.read_calls", 1);
        if buf.is_empty() {
            return Ok(0);
        }
        if self.dead {
            return Ok(0);
        }
        let remaining = self.data.len() - self.pos;
        if self.faults && remaining > 0 {
            // faults only while there is content in flight
            match tape::weighted(Stream::Faults, "reader.fault", &[40, 3, 1, 1]) {
                1 => {
                    self.faults_fired += 1;
                    stats::count("fault.read_interrupted", 1);
                    return Err(io::Error::new(ErrorKind::Interrupted, "simulated EINTR"));
                },
                2 => {
                    self.faults_fired += 1;
                    stats::count("fault.read_io_error", 1);
                    return Err(io::Error::other("simulated I/O error"));
                },
                3 => {
                    self.faults_fired += 1;
                    stats::count("fault.read_premature_eof", 1);
                    self.dead = true;
                    return Ok(0);
                },
                _ => {},
            }
        }
        if remaining == 0 {
            return Ok(0);
        }
        let max = buf.len().min(remaining);
        let n = match self.style {
            0 => max,
            1 => 1,
            2 => 1 + tape::s("reader.chunk_tiny", 3.min(max as u64)) as usize,
            3 => {
                // mixed: full, or uniformly random length
                if tape::s("reader.chunk_full", 3) == 0 {
                    max
                } else {
                    1 + tape::s("reader.chunk", max as u64) as usize
                }
            },
            _ => {
                // lengths around the adapter's 256-byte buffer and around small integers
                let cands = [max, 1, 2, 3, 7, 8, 9, 15, 16, 17, 254, 255, 256];
                let c = cands[tape::s("reader.chunk_boundary", cands.len() as u64) as usize];
                c.clamp(1, max)
            },
        };
        let n = n.clamp(1, max);
        buf[..n].copy_from_slice(&self.data[self.pos..self.pos + n]);
        self.pos += n;
        if n < max {
            stats::count("steps.short_reads", 1);
        }
        Ok(n)
    }
}

/// Accepts a tape-chosen prefix of every write; what was accepted is the simulated storage.
pub struct SimWriter {
    pub stored: Vec<u8>,
    faults: bool,
    style: u64,
    pub calls: u64,
    pub hard_error: bool,
}

impl SimWriter {
    pub fn new(faults: bool) -> Self {
        let style = tape::weighted(Stream::Schedule, "writer.style", &[2, 2, 4]) as u64;
        stats::sig(0x5800 + style);
        SimWriter { stored: Vec::new(), faults, style, calls: 0, hard_error: false }
    }
}

impl Write for SimWriter {
    fn write(&mut self, buf: &[u8]) -> io::Result<usize> {
        self.calls += 1;
        stats::count("steps.write_calls", 1);
        if buf.is_empty() {
            return Ok(0);
        }
        if self.faults {
            match tape::weighted(Stream::Faults, "writer.fault", &[60, 4, 1, 1]) {
                1 => {
                    stats::count("fault.write_interrupted", 1);
                    return Err(io::Error::new(ErrorKind::Interrupted, "simulated EINTR"));
                },
                2 => {
                    stats::count("fault.write_io_error", 1);
                    self.hard_error = true;
                    return Err(io::Error::other("simulated I/O error"));
                },
                3 => {
                    // disk full: accepts nothing from now on
                    stats::count("fault.write_disk_full", 1);
                    self.hard_error = true;
                    return Ok(0);
                },
                _ => {},
            }
        }
        let n = match self.style {
            0 => buf.len(),
            1 => 1,
            _ => 1 + tape::s("writer.chunk", buf.len() as u64) as usize,
        };
        let n = n.clamp(1, buf.len());
        if n < buf.len() {
            stats::count("steps.short_writes", 1);
        }
        self.stored.extend_from_slice(&buf[..n]);
        Ok(n)
    }
    fn flush(&mut self) -> io::Result<()> {
        Ok(())
    }
}

pub fn hex(b: &[u8]) -> String {
    let mut s = String::with_capacity(b.len() * 2);
    for x in b.iter().take(96) {
        s.push_str(&format!("{x:02x}"));
    }
    if b.len() > 96 {
        s.push_str(&format!("..(+{} bytes)", b.len() - 96));
    }
    s
}
