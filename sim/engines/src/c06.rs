//! C06 - proof bytes are independent of threading and build features. The same instances (drawn
//! from the workload stream, which is identical in every build) are proved by the serial build
//! (the reference, written to target/digests), by the concurrent build on the simulated scheduler
//! for several (worker count, schedule) pairs, and by the async builds on the simulated executor
//! with several proofs in flight and a cancellation; the digests are compared.

use std::{cell::RefCell, collections::BTreeMap};

use air::proof::Proof;
use crypto::{
    hashers::{Blake3_192, Blake3_256, Rp62_248, Rp64_256, RpJive64_256, Sha3_256},
    ElementHasher,
};
use math::{ExtensibleField, StarkField};
use simcore::{
    driver::Scenario,
    fail,
    rng::{fnv, mix, Rng},
    stats, tape, Outcome,
};
use utils::Serializable;

use crate::{
    c01::{verify_node, ProveOutcome},
    fields::{F128, F62, F64},
    genair::{build_main_columns, public_inputs, GenInputs, Knobs, Spec},
    protocol::{draw_instance, reset_histories, Instance, Limits},
    sched, with_coin_hasher,
};

const S: Limits = Limits { max_log_n: 8, max_log_lde: 12, max_width: 40, max_grinding: 8, allow_meta_pad: false };
const M: Limits = Limits { max_log_n: 11, max_log_lde: 15, max_width: 255, max_grinding: 12, allow_meta_pad: false };
const L: Limits = Limits { max_log_n: 13, max_log_lde: 18, max_width: 64, max_grinding: 12, allow_meta_pad: false };

pub fn scenarios() -> Vec<Scenario> {
    let about = if cfg!(any(feature = "concurrent", feature = "async", feature = "real-rayon")) {
        "same instances as the serial reference, proved under the simulated scheduler (3 (worker count, schedule) variants per instance, one of them with the nonce search pinned to worker 0) and/or the simulated executor (1..4 proofs in flight, yields, one cancellation); context / commitments / OOD frame bytes must equal the serial build's, the whole proof when the nonce is equal, and every proof verifies"
    } else {
        "reference: the serial build proves each instance once and records digests of context, commitments, OOD frame, nonce and whole proof"
    };
    let mut v = vec![
        Scenario::new("C06", "small", about, run_small, 1_500, 100_000),
        Scenario::new("C06", "medium", about, run_medium, 250, 12_000),
        Scenario::new("C06", "large", about, run_large, 30, 1_500),
    ];
    v.push(Scenario::new(
        "C06",
        "fragments",
        "TraceTable built by fill, by init and by fragments (fragment length and, under the simulated scheduler, fill order and worker count from the tape; some fragments filled twice, closures that leave part of the first row to the documented all-zero initial state): same rows",
        crate::c01::fragments_scenario,
        3_000,
        200_000,
    ));
    for s in v.iter_mut() {
        s.watchdog_s = 180;
    }
    v
}

fn run_small() -> Outcome {
    c06(&S, "small")
}
fn run_medium() -> Outcome {
    c06(&M, "medium")
}
fn run_large() -> Outcome {
    c06(&L, "large")
}

#[derive(Clone, Debug, PartialEq)]
struct Digests {
    context: u64,
    commitments: u64,
    ood: u64,
    nonce: u64,
    proof: u64,
}

fn digests(p: &Proof) -> Digests {
    Digests {
        context: fnv(&p.context.to_bytes()),
        commitments: fnv(&p.commitments.to_bytes()),
        ood: fnv(&p.ood_frame.to_bytes()),
        nonce: p.pow_nonce,
        proof: fnv(&p.to_bytes()),
    }
}

fn instance_key(inst: &Instance) -> u64 {
    mix(&[fnv(inst.describe().as_bytes()), inst.trace_seed, inst.knobs.seed])
}

thread_local! {
    static REFERENCE: RefCell<Option<BTreeMap<u64, Digests>>> = const { RefCell::new(None) };
}

#[allow(dead_code)]
fn reference(size: &str, key: u64) -> Option<Digests> {
    REFERENCE.with(|r| {
        let mut r = r.borrow_mut();
        if r.is_none() {
            let mut map = BTreeMap::new();
            for sz in ["small", "medium", "large"] {
                let path = format!("{}/target/digests/C06-{sz}-serial.txt", simcore::driver::verif_dir());
                let text = std::fs::read_to_string(&path).unwrap_or_default();
                for line in text.lines() {
                    let f: Vec<&str> = line.split_whitespace().collect();
                    if f.len() == 7 {
                        let h = |s: &str| u64::from_str_radix(s, 16).unwrap_or(0);
                        map.insert(h(f[1]), Digests { context: h(f[2]), commitments: h(f[3]), ood: h(f[4]), nonce: h(f[5]), proof: h(f[6]) });
                    }
                }
            }
            if map.is_empty() {
                simcore::harness_error(&format!("no serial reference digests for C06/{size}: run `./check C06 <tier>`, which runs the serial batch first"));
            }
            *r = Some(map);
        }
        r.as_ref().unwrap().get(&key).cloned()
    })
}

struct Prepared<B: StarkField> {
    spec: Spec<B>,
    inputs: GenInputs<B>,
    main: Vec<Vec<B>>,
}

fn prepare<B: StarkField>(inst: &Instance) -> Prepared<B> {
    let info = inst.trace_info();
    let spec = Spec::<B>::derive(&Knobs::from_meta(info.meta()), &info);
    let mut rng = Rng::new(mix(&[inst.trace_seed, 1]));
    let main = build_main_columns(&spec, &mut rng);
    let inputs = public_inputs(&spec, &main);
    Prepared { spec, inputs, main }
}

fn c06(lim: &Limits, size: &'static str) -> Outcome {
    // two instances per run, identical in every build (workload stream only)
    let a = draw_instance(lim);
    let b = draw_instance(lim);
    stats::sig(a.class_sig());
    stats::nontrivial();
    stats::sample(|| a.describe());
    for inst in [&a, &b] {
        with_coin_hasher!(inst.combo, H, B => one::<B, H>(inst, size))?;
    }
    #[cfg(feature = "async")]
    {
        in_flight(&a, &b, size)?;
    }
    Ok(())
}

#[cfg(not(any(feature = "concurrent", feature = "async", feature = "real-rayon")))]
fn one<B, H>(inst: &Instance, _size: &str) -> Outcome
where
    B: StarkField + ExtensibleField<2> + ExtensibleField<3> + 'static,
    H: ElementHasher<BaseField = B> + Sync + Send,
{
    let _ = sched::begin(true);
    let p = prepare::<B>(inst);
    reset_histories();
    if let ProveOutcome::Proof(proof) = crate::c01::prove_node::<B, H>(inst, &p.spec, &p.inputs, p.main.clone(), None) {
        let d = digests(&proof);
        stats::emit(format!("{:x} {:x} {:x} {:x} {:x} {:x}", instance_key(inst), d.context, d.commitments, d.ood, d.nonce, d.proof));
        stats::count("steps.reference_proofs", 1);
    }
    Ok(())
}

#[allow(dead_code)]
fn compare(inst: &Instance, size: &str, what: &str, proof: &Proof, require_whole: bool) -> Outcome {
    let Some(want) = reference(size, instance_key(inst)) else {
        // the serial build produced no proof for this instance (C01's business), or the minimiser
        // changed the instance: nothing to compare with
        stats::count("steps.no_reference_for_instance", 1);
        return Ok(());
    };
    let got = digests(proof);
    let ctx = || format!("{what} :: {}", inst.describe());
    if got.context != want.context {
        fail!("context-bytes-differ-from-serial-build", what.split(' ').next().unwrap_or("?"), "{}", ctx());
    }
    if got.commitments != want.commitments {
        fail!("commitment-bytes-differ-from-serial-build", what.split(' ').next().unwrap_or("?"), "{}", ctx());
    }
    if got.ood != want.ood {
        fail!("ood-frame-bytes-differ-from-serial-build", what.split(' ').next().unwrap_or("?"), "{}", ctx());
    }
    if got.nonce == want.nonce {
        stats::count("steps.nonce_equal_to_serial", 1);
        if got.proof != want.proof {
            fail!("proof-bytes-differ-although-nonce-is-equal", what.split(' ').next().unwrap_or("?"), "{}", ctx());
        }
    } else {
        stats::probe("probe.other_nonce_than_serial");
        if require_whole {
            fail!("nonce-differs-although-search-was-in-order", what.split(' ').next().unwrap_or("?"), "serial nonce {} this build {} :: {}", want.nonce, got.nonce, ctx());
        }
    }
    stats::count("steps.proofs_compared_with_serial", 1);
    Ok(())
}

/// calibration build: winterfell's concurrent code on the REAL rayon with however many threads
/// RAYON_NUM_THREADS gives it; observation only (see /verif/calib)
#[cfg(feature = "real-rayon")]
fn one<B, H>(inst: &Instance, size: &str) -> Outcome
where
    B: StarkField + ExtensibleField<2> + ExtensibleField<3> + 'static,
    H: ElementHasher<BaseField = B> + Sync + Send,
{
    let p = prepare::<B>(inst);
    reset_histories();
    let threads = utils::rayon::current_num_threads();
    let what = format!("real-rayon threads={threads}");
    match crate::c01::prove_node::<B, H>(inst, &p.spec, &p.inputs, p.main.clone(), None) {
        ProveOutcome::Proof(proof) => {
            compare(inst, size, &what, &proof, false)?;
            if tape::w("c06.verify", 3) == 0 {
                match verify_node::<B, H>(&proof.to_bytes(), &p.inputs) {
                    Ok(Ok(())) => {},
                    _ => fail!("proof-of-this-build-does-not-verify", "real-rayon", "{what} :: {}", inst.describe()),
                }
            }
        },
        _ => {
            if reference(size, instance_key(inst)).is_some() {
                fail!("prover-fails-where-serial-build-succeeds", "real-rayon", "{what} :: {}", inst.describe());
            }
        },
    }
    Ok(())
}

#[cfg(all(feature = "concurrent", not(feature = "async")))]
fn one<B, H>(inst: &Instance, size: &str) -> Outcome
where
    B: StarkField + ExtensibleField<2> + ExtensibleField<3> + 'static,
    H: ElementHasher<BaseField = B> + Sync + Send,
{
    let p = prepare::<B>(inst);
    for variant in 0..3 {
        let threads = sched::begin(true);
        // variant 0: only the nonce search is pinned to worker 0; every other decision is free
        let pinned = variant == 0;
        rayon::sim::set_find_any_worker0(pinned);
        reset_histories();
        let what = format!("concurrent variant {variant} threads={threads} nonce-search-pinned={pinned}");
        match crate::c01::prove_node::<B, H>(inst, &p.spec, &p.inputs, p.main.clone(), None) {
            ProveOutcome::Proof(proof) => {
                compare(inst, size, &what, &proof, pinned)?;
                // every proof verifies (this also checks the nonce against the grinding factor)
                if tape::w("c06.verify", 3) == 0 || variant == 0 {
                    match verify_node::<B, H>(&proof.to_bytes(), &p.inputs) {
                        Ok(Ok(())) => {},
                        other => fail!("proof-of-this-build-does-not-verify", "concurrent", "{what}: {:?} :: {}", other.map(|r| r.map_err(|e| e.to_string())).map_err(|p| p.msg), inst.describe()),
                    }
                }
            },
            _ => {
                if reference(size, instance_key(inst)).is_some() {
                    fail!("prover-fails-where-serial-build-succeeds", "concurrent", "{what} :: {}", inst.describe());
                }
            },
        }
        if sched::regions() > 0 {
            stats::probe("probe.prover_ran_under_simulated_scheduler");
        }
    }
    Ok(())
}

#[cfg(feature = "async")]
fn one<B, H>(_inst: &Instance, _size: &str) -> Outcome
where
    B: StarkField + ExtensibleField<2> + ExtensibleField<3> + 'static,
    H: ElementHasher<BaseField = B> + Sync + Send,
{
    Ok(())
}

/// async builds: 1..=4 proofs of the two instances in flight on one executor, one cancellation
#[cfg(feature = "async")]
fn in_flight(a: &Instance, b: &Instance, size: &str) -> Outcome {
    use std::{future::Future, pin::Pin};

    use prover::Prover;

    use crate::{genair::GenTrace, protocol::GenProver};

    let threads = sched::begin(true);
    #[cfg(feature = "concurrent")]
    rayon::sim::set_find_any_worker0(tape::s("c06.pin_nonce", 2) == 0);
    let k = 1 + tape::s("exec.tasks", 4) as usize;
    let picks: Vec<bool> = (0..k).map(|_| tape::s("exec.which_instance", 2) == 0).collect();
    let cancel = if k > 1 && tape::f("exec.cancel", 3) == 0 { Some((tape::f("exec.cancel.task", k as u64) as usize, tape::f("exec.cancel.at", 6) as usize)) } else { None };
    // build one future per task; the provers must outlive the futures
    macro_rules! build {
        ($inst:expr, $H:ident, $B:ident) => {{
            let p = prepare::<$B>($inst);
            let prover = GenProver::<$B, $H>::new($inst.opts.build(), p.spec.clone(), p.inputs.clone(), $inst.trace_seed);
            let trace = GenTrace::new($inst.trace_info(), p.main.clone());
            let fut: Pin<Box<dyn Future<Output = Option<Proof>>>> = Box::pin(async move { prover.prove(trace).await.ok() });
            fut
        }};
    }
    let mut futs: Vec<Pin<Box<dyn Future<Output = Option<Proof>>>>> = Vec::new();
    for &first in picks.iter() {
        let inst = if first { a } else { b };
        let f = with_coin_hasher!(inst.combo, H, B => build!(inst, H, B));
        futs.push(f);
    }
    reset_histories();
    crate::protocol::set_role(crate::protocol::PROVER);
    let outs = match simcore::guard(|| crate::executor::run_tasks(futs, cancel)) {
        Ok(o) => o,
        Err(p) => {
            // a panic inside one proof (a known failing configuration) ends the whole executor
            // run; only judged when the serial build could prove both instances
            if reference(size, instance_key(a)).is_some() && reference(size, instance_key(b)).is_some() {
                fail!("prover-fails-where-serial-build-succeeds", "async", "{} :: {} / {}", p.msg, a.describe(), b.describe());
            }
            return Ok(());
        },
    };
    for (t, out) in outs.iter().enumerate() {
        let inst = if picks[t] { a } else { b };
        match out {
            Some(Some(proof)) => {
                let what = format!("async task {t} of {k} threads={threads} cancel={cancel:?}");
                compare(inst, size, &what, proof, !cfg!(feature = "concurrent"))?;
                stats::probe("probe.proof_completed_with_others_in_flight");
            },
            Some(None) => {},
            None => stats::probe("probe.task_cancelled_mid_pipeline"),
        }
    }
    Ok(())
}
