//! C26 - primitive encodings through simulated writers, storage, transport faults and readers.

use std::{
    collections::{BTreeMap, BTreeSet},
    fmt::Debug,
    io::Cursor,
};

use simcore::{
    driver::Scenario,
    fail, guard, stats,
    tape::{self, Stream},
    Outcome,
};
use utils::{ByteReader, ByteWriter, Deserializable, DeserializationError, ReadAdapter, Serializable, SliceReader};

use crate::streams::{hex, SimReader, SimWriter};

pub fn scenarios() -> Vec<Scenario> {
    let mut v = scenario_list();
    for s in v.iter_mut() {
        // honest encodings in this engine stay below 100 KiB; a decoder asking for more than
        // 64 MiB in one request is amplifying a corrupted length
        s.alloc_cap = 64 << 20;
    }
    v
}

fn scenario_list() -> Vec<Scenario> {
    vec![
        Scenario::new(
            "C26",
            "roundtrip",
            "value -> ByteWriter (Vec and short-writing SimWriter) -> storage -> SliceReader / Cursor / ReadAdapter over a chunked stream: equal value, exact consumption, documented length",
            run_roundtrip,
            150_000,
            3_000_000,
        ),
        Scenario::new(
            "C26",
            "torn-and-corrupt",
            "stored encoding hit by transport/storage faults (torn write = truncation at a tape-chosen or every length, invalid bool byte, invalid UTF-8, length-prefix edits, byte/bit edits) then decoded: Err or a value, never a panic/abort; truncation must be Err",
            run_corrupt,
            150_000,
            3_000_000,
        ),
        Scenario::new(
            "C26",
            "writer-faults",
            "writer hits EINTR / I/O error / disk full mid-value: a panic is documented, but what reached storage must be a prefix of the reference encoding, and without a hard fault it must be the whole encoding",
            run_writer_faults,
            60_000,
            1_000_000,
        ),
        Scenario::new(
            "C26",
            "usize-boundaries",
            "every size value 2^k-1, 2^k, 2^k+1 for k = 0..=64 (enumerated): documented vint64 length, round trip through all readers, every truncation is an error",
            run_usize_boundaries,
            USIZE_CASES,
            USIZE_CASES,
        ),
    ]
}

// VALUE GENERATION
// ================================================================================================

pub trait Gen: Sized {
    fn gen(depth: u32) -> Self;
}

fn small_len(label: &'static str) -> usize {
    // occasionally a long value: lengths around powers of two up to 2^16, where an implementation
    // that processes input in blocks has its block boundaries
    if tape::w("len.long", 24) == 23 {
        let k = 9 + tape::w("len.long.pow", 8) as u32; // 512 .. 65536
        return ((1usize << k) + tape::w("len.long.pm", 5) as usize).saturating_sub(2);
    }
    match tape::w(label, 8) {
        0 => 0,
        1 => 1,
        2 => 2,
        3 | 4 => tape::w("len.few", 9) as usize,
        5 => 127 + tape::w("len.around127", 3) as usize,
        6 => tape::w("len.upto300", 300) as usize,
        _ => tape::w("len.upto40", 40) as usize,
    }
}

macro_rules! gen_uint {
    ($t:ty, $bits:expr) => {
        impl Gen for $t {
            fn gen(_d: u32) -> Self {
                match tape::w("int.class", 6) {
                    0 => 0,
                    1 => <$t>::MAX,
                    2 => 1,
                    3 => {
                        // around a power of two
                        let k = tape::w("int.pow", $bits) as u32;
                        let base = (1 as $t) << k;
                        match tape::w("int.pm", 3) {
                            0 => base,
                            1 => base.wrapping_sub(1),
                            _ => base.wrapping_add(1),
                        }
                    },
                    _ => {
                        let lo = tape::bits64(Stream::Workload, "int.bits") as u128;
                        let hi = tape::bits64(Stream::Workload, "int.bits") as u128;
                        ((hi << 64) | lo) as $t
                    },
                }
            }
        }
    };
}
gen_uint!(u8, 8);
gen_uint!(u16, 16);
gen_uint!(u32, 32);
gen_uint!(u64, 64);
gen_uint!(u128, 128);
gen_uint!(usize, 64);

/// booleans have no `Serializable` impl of their own; they travel through `write_bool` /
/// `read_bool`, which is what this wrapper does
#[derive(Debug, Clone, Copy, PartialEq, Eq, PartialOrd, Ord)]
pub struct B(bool);
impl Serializable for B {
    fn write_into<W: ByteWriter>(&self, target: &mut W) {
        target.write_bool(self.0)
    }
    fn get_size_hint(&self) -> usize {
        1
    }
}
impl Deserializable for B {
    fn read_from<R: ByteReader>(source: &mut R) -> Result<Self, DeserializationError> {
        source.read_bool().map(B)
    }
}
impl Gen for B {
    fn gen(_d: u32) -> Self {
        B(tape::w("bool", 2) == 1)
    }
}
impl Gen for () {
    fn gen(_d: u32) -> Self {}
}
impl<T: Gen> Gen for Option<T> {
    fn gen(d: u32) -> Self {
        if tape::w("option.some", 2) == 1 {
            Some(T::gen(d + 1))
        } else {
            None
        }
    }
}
impl<T: Gen + Debug, const N: usize> Gen for [T; N] {
    fn gen(d: u32) -> Self {
        let v: Vec<T> = (0..N).map(|_| T::gen(d + 1)).collect();
        v.try_into().unwrap()
    }
}
impl<T: Gen> Gen for Vec<T> {
    fn gen(d: u32) -> Self {
        let n = if d >= 1 { tape::w("len.nested", 5) as usize } else { small_len("vec.len") };
        (0..n).map(|_| T::gen(d + 1)).collect()
    }
}
impl<K: Gen + Ord, V: Gen> Gen for BTreeMap<K, V> {
    fn gen(d: u32) -> Self {
        let n = if d >= 1 { tape::w("len.nested", 5) as usize } else { tape::w("map.len", 12) as usize };
        (0..n).map(|_| (K::gen(d + 1), V::gen(d + 1))).collect()
    }
}
impl<T: Gen + Ord> Gen for BTreeSet<T> {
    fn gen(d: u32) -> Self {
        let n = if d >= 1 { tape::w("len.nested", 5) as usize } else { tape::w("set.len", 12) as usize };
        (0..n).map(|_| T::gen(d + 1)).collect()
    }
}
impl Gen for String {
    fn gen(d: u32) -> Self {
        let n = if d >= 1 { tape::w("len.nested", 5) as usize } else { small_len("string.len") };
        const ALPHABET: [&str; 10] = ["a", "Z", "0", " ", "\u{e9}", "\u{df}", "\u{4e2d}", "\u{1f600}", "\0", "\u{7f}"];
        let mut s = String::new();
        for _ in 0..n {
            s.push_str(ALPHABET[tape::w("string.char", ALPHABET.len() as u64) as usize]);
        }
        s
    }
}
macro_rules! gen_tuple {
    ($($t:ident),+) => {
        impl<$($t: Gen),+> Gen for ($($t,)+) {
            fn gen(d: u32) -> Self {
                ($($t::gen(d + 1),)+)
            }
        }
    };
}
gen_tuple!(A);
gen_tuple!(A, B);
gen_tuple!(A, B, C);
gen_tuple!(A, B, C, D);
gen_tuple!(A, B, C, D, E);
gen_tuple!(A, B, C, D, E, F);

// TYPE TABLE
// ================================================================================================

/// what to do with a generated value of a concrete type
#[derive(Clone, Copy, PartialEq)]
enum Mode {
    Roundtrip,
    Corrupt,
    WriterFaults,
}

macro_rules! type_table {
    ($($idx:literal => $t:ty),+ $(,)?) => {
        const NUM_TYPES: u64 = [$($idx),+].len() as u64;
        fn dispatch(ty: u64, mode: Mode) -> Outcome {
            match ty {
                $($idx => run_typed::<$t>(stringify!($t), mode),)+
                _ => unreachable!(),
            }
        }
    };
}

type_table! {
    0 => u8, 1 => u16, 2 => u32, 3 => u64, 4 => u128, 5 => B, 6 => usize, 7 => (),
    8 => Option<u32>, 9 => Option<Option<u8>>, 10 => Option<Vec<u16>>, 11 => Option<B>,
    12 => [u8; 0], 13 => [u16; 3], 14 => [u64; 5], 15 => [Option<B>; 4], 16 => [usize; 2],
    17 => Vec<u8>, 18 => Vec<u64>, 19 => Vec<Vec<u8>>, 20 => Vec<String>, 21 => Vec<(u8, B)>,
    22 => Vec<usize>, 23 => Vec<B>, 24 => Vec<u128>,
    25 => BTreeMap<u32, String>, 26 => BTreeMap<usize, Vec<u8>>, 27 => BTreeMap<String, B>,
    28 => BTreeSet<u64>, 29 => BTreeSet<String>, 30 => BTreeSet<(u8, u8)>,
    31 => String,
    32 => (u8,), 33 => (u8, u16), 34 => (B, String, u32), 35 => (u8, u16, u32, u64),
    36 => (usize, Vec<u8>, Option<u16>, String, u128), 37 => (u8, B, usize, (u16, u16), [u8; 2], Option<String>),
    38 => Vec<Option<String>>, 39 => Option<BTreeMap<u8, Vec<B>>>,
}

fn run_roundtrip() -> Outcome {
    let ty = tape::w("type", NUM_TYPES);
    stats::sig(ty);
    dispatch(ty, Mode::Roundtrip)
}
fn run_corrupt() -> Outcome {
    let ty = tape::w("type", NUM_TYPES);
    stats::sig(ty);
    dispatch(ty, Mode::Corrupt)
}
fn run_writer_faults() -> Outcome {
    let ty = tape::w("type", NUM_TYPES);
    stats::sig(ty);
    dispatch(ty, Mode::WriterFaults)
}

fn run_typed<T>(name: &'static str, mode: Mode) -> Outcome
where
    T: Gen + Serializable + Deserializable + PartialEq + Debug,
{
    let value = T::gen(0);
    let enc = value.to_bytes();
    stats::sample(|| format!("{{\"type\":\"{}\",\"value\":\"{}\",\"encoding\":\"{}\"}}", name, trunc(&format!("{value:?}"), 120).replace('\\', "/").replace('"', "'"), hex(&enc)));
    stats::sig(enc.len().min(300) as u64);
    match mode {
        Mode::Roundtrip => roundtrip(name, &value, &enc),
        Mode::Corrupt => corrupt::<T>(name, &value, &enc),
        Mode::WriterFaults => writer_faults(name, &value, &enc),
    }
}

fn trunc(s: &str, n: usize) -> String {
    if s.len() > n {
        let mut e = n;
        while !s.is_char_boundary(e) {
            e -= 1;
        }
        format!("{}..", &s[..e])
    } else {
        s.to_string()
    }
}

// ROUND TRIP
// ================================================================================================

fn roundtrip<T>(name: &'static str, value: &T, enc: &[u8]) -> Outcome
where
    T: Serializable + Deserializable + PartialEq + Debug,
{
    // (the size hint is documented as an estimate, so it is not compared with the encoding length)
    // writer seam: short writes, no faults
    let mut w = SimWriter::new(false);
    if let Err(p) = guard(|| value.write_into(&mut w)) {
        fail!("panic", p.site(), "writing {name} through a short-writing stream: {}", p.msg);
    }
    if w.stored != enc {
        fail!("stream-writer-stored-different-bytes", name, "{name}: Vec encoding {} but stream stored {}", hex(enc), hex(&w.stored));
    }
    if w.calls > 1 {
        stats::nontrivial();
    }
    // trailing bytes after the value must be left untouched
    let tail_len = tape::w("tail.len", 4) as usize;
    let tail: Vec<u8> = (0..tail_len).map(|i| 0xC0 + i as u8).collect();
    let mut stored = enc.to_vec();
    stored.extend_from_slice(&tail);

    // reader 1: SliceReader
    let r = guard(|| {
        let mut rd = SliceReader::new(&stored);
        let v = T::read_from(&mut rd);
        let rest = rd.read_slice(tail_len).map(|s| s.to_vec());
        (v, rest, rd.has_more_bytes())
    });
    judge_read(name, "SliceReader", value, enc, &tail, r)?;
    // reader 2: Cursor
    let r = guard(|| {
        let mut rd = Cursor::new(&stored[..]);
        let v = T::read_from(&mut rd);
        let rest = rd.read_slice(tail_len).map(|s| s.to_vec());
        (v, rest, rd.has_more_bytes())
    });
    judge_read(name, "Cursor", value, enc, &tail, r)?;
    // reader 3: ReadAdapter over a chunked stream
    let mut sim = SimReader::new(stored.clone(), false);
    let r = guard(|| {
        let mut rd = ReadAdapter::new(&mut sim);
        let v = T::read_from(&mut rd);
        let rest = rd.read_slice(tail_len).map(|s| s.to_vec());
        let more = rd.has_more_bytes();
        (v, rest, more)
    });
    judge_read(name, "ReadAdapter", value, enc, &tail, r)?;
    // read_from_bytes convenience
    match guard(|| T::read_from_bytes(enc)) {
        Ok(Ok(v)) if &v == value => {},
        other => fail!("read-from-bytes-differs", name, "{name}: {}", trunc(&format!("{other:?}"), 160)),
    }
    Ok(())
}

#[allow(clippy::type_complexity)]
fn judge_read<T: PartialEq + Debug>(
    name: &'static str,
    reader: &'static str,
    value: &T,
    enc: &[u8],
    tail: &[u8],
    r: Result<(Result<T, DeserializationError>, Result<Vec<u8>, DeserializationError>, bool), simcore::PanicInfo>,
) -> Outcome {
    match r {
        Err(p) => fail!("panic", p.site(), "decoding {name} with {reader}: {} (encoding {})", p.msg, hex(enc)),
        Ok((Err(e), _, _)) => fail!("decode-error-on-own-encoding", format!("{reader}/{name}"), "{name} via {reader}: {e:?} (encoding {})", hex(enc)),
        Ok((Ok(v), rest, more)) => {
            if &v != value {
                fail!("decoded-value-differs", format!("{reader}/{name}"), "{name} via {reader}: wrote {} read {}", trunc(&format!("{value:?}"), 100), trunc(&format!("{v:?}"), 100));
            }
            match rest {
                Ok(t) if t == tail && !more => Ok(()),
                other => fail!("did-not-consume-exactly-the-encoding", format!("{reader}/{name}"), "{name} via {reader}: after the value expected tail {} and end of input, got {:?} more={more}", hex(tail), other),
            }
        },
    }
}

// TORN WRITES AND CORRUPTION
// ================================================================================================

fn corrupt<T>(name: &'static str, value: &T, enc: &[u8]) -> Outcome
where
    T: Serializable + Deserializable + PartialEq + Debug,
{
    let kind = tape::weighted(Stream::Faults, "corrupt.kind", &[0, 6, 3, 3, 4, 2, 2]);
    let mut bytes = enc.to_vec();
    let mut must_fail = false;
    let kind_name = match kind {
        1 => {
            // torn write: a strict prefix reached storage
            if enc.is_empty() {
                return Ok(());
            }
            let cut = tape::f("corrupt.cut", enc.len() as u64) as usize;
            bytes.truncate(cut);
            must_fail = true;
            "truncate"
        },
        2 => {
            if enc.is_empty() {
                return Ok(());
            }
            let pos = tape::f("corrupt.pos", enc.len() as u64) as usize;
            bytes[pos] ^= 1 << tape::f("corrupt.bit", 8);
            "bit_flip"
        },
        3 => {
            if enc.is_empty() {
                return Ok(());
            }
            let pos = tape::f("corrupt.pos", enc.len() as u64) as usize;
            bytes[pos] = [0u8, 1, 2, 0x7f, 0x80, 0xfe, 0xff][tape::f("corrupt.val", 7) as usize];
            "byte_set"
        },
        4 => {
            // length-prefix edit: overwrite the leading bytes with the encoding of another size
            let sizes: [usize; 9] = [0, 1, 127, 128, 1 << 14, 1 << 20, 1 << 32, 1 << 56, usize::MAX];
            let s = sizes[tape::f("corrupt.size", sizes.len() as u64) as usize];
            let pre = s.to_bytes();
            let skip = if bytes.is_empty() { 0 } else { ((bytes[0].trailing_zeros() as usize) + 1).min(9).min(bytes.len()) };
            let mut nb = pre;
            nb.extend_from_slice(&bytes[skip..]);
            bytes = nb;
            "length_prefix_edit"
        },
        5 => {
            // invalid bool / option flag: set some byte that currently is 0 or 1 to 2..=255
            let cands: Vec<usize> = bytes.iter().enumerate().filter(|(_, b)| **b <= 1).map(|(i, _)| i).collect();
            if cands.is_empty() {
                return Ok(());
            }
            let pos = cands[tape::f("corrupt.boolpos", cands.len() as u64) as usize];
            bytes[pos] = 2 + tape::f("corrupt.boolval", 254) as u8;
            "invalid_bool_byte"
        },
        _ => {
            // invalid UTF-8: overwrite a byte with 0xff / 0xc0 / lone continuation
            if enc.is_empty() {
                return Ok(());
            }
            let pos = tape::f("corrupt.pos", enc.len() as u64) as usize;
            bytes[pos] = [0xffu8, 0xc0, 0x80, 0xf8][tape::f("corrupt.utf8", 4) as usize];
            "invalid_utf8_byte"
        },
    };
    stats::count(&format!("fault.{kind_name}"), 1);
    stats::sig(0xC0 + kind as u64);
    stats::nontrivial();
    stats::event(|| format!("{kind_name}: {} -> {}", hex(enc), hex(&bytes)));
    let via_adapter = tape::s("corrupt.reader", 2) == 1;
    let r = if via_adapter {
        let mut sim = SimReader::new(bytes.clone(), false);
        guard(|| {
            let mut rd = ReadAdapter::new(&mut sim);
            T::read_from(&mut rd)
        })
    } else {
        guard(|| T::read_from_bytes(&bytes))
    };
    match r {
        Err(p) => fail!("panic", p.site(), "decoding {name} after {kind_name}: {} (bytes {})", p.msg, hex(&bytes)),
        Ok(Err(_)) => {
            stats::probe("probe.corruption_rejected");
            Ok(())
        },
        Ok(Ok(v)) => {
            if must_fail {
                fail!("truncated-encoding-decoded", name, "{name}: {} of {} bytes decoded to {} (original {})", bytes.len(), enc.len(), trunc(&format!("{v:?}"), 80), trunc(&format!("{value:?}"), 80));
            }
            stats::probe("probe.corruption_left_a_valid_encoding");
            Ok(())
        },
    }
}

// WRITER FAULTS
// ================================================================================================

fn writer_faults<T>(name: &'static str, value: &T, enc: &[u8]) -> Outcome
where
    T: Serializable + Debug,
{
    let mut w = SimWriter::new(true);
    let r = guard(|| value.write_into(&mut w));
    stats::nontrivial();
    if !enc.starts_with(&w.stored) {
        fail!("storage-is-not-a-prefix-of-the-encoding", name, "{name}: encoding {} storage {}", hex(enc), hex(&w.stored));
    }
    match r {
        Ok(()) => {
            if w.hard_error {
                fail!("write-error-swallowed", name, "{name}: the stream reported a hard error but write_into returned normally");
            }
            if w.stored != enc {
                fail!("stream-writer-stored-different-bytes", name, "{name}: encoding {} storage {}", hex(enc), hex(&w.stored));
            }
        },
        Err(_) => {
            // documented: panics if the value could not be written
            if !w.hard_error {
                fail!("panic-without-hard-error", name, "{name}: write_into panicked although the stream only produced short writes / EINTR");
            }
            stats::probe("probe.torn_write_left_a_prefix");
        },
    }
    Ok(())
}

// SIZE VALUE BOUNDARIES (enumerated)
// ================================================================================================

const USIZE_CASES: u64 = 65 * 3;

fn documented_len(v: u64) -> usize {
    let bits = 64 - v.leading_zeros() as usize;
    if bits <= 7 {
        1
    } else if bits > 56 {
        9
    } else {
        bits.div_ceil(7)
    }
}

fn run_usize_boundaries() -> Outcome {
    let case = crate::exh_index(USIZE_CASES);
    let k = (case / 3) as u32;
    let base: u128 = 1u128 << k;
    let v = match case % 3 {
        0 => base.wrapping_sub(1),
        1 => base,
        _ => base + 1,
    };
    if v > u64::MAX as u128 {
        return Ok(());
    }
    let v = v as u64 as usize;
    stats::sig(case);
    stats::nontrivial();
    let enc = v.to_bytes();
    stats::sample(|| format!("{{\"value\":\"{v}\",\"encoding\":\"{}\"}}", hex(&enc)));
    if enc.len() != documented_len(v as u64) {
        fail!("size-encoding-length-differs-from-documented", "usize", "value {v}: encoded in {} bytes, vint64 says {}", enc.len(), documented_len(v as u64));
    }
    roundtrip("usize", &v, &enc)?;
    // the same value inside a vector prefix position
    for cut in 0..enc.len() {
        match guard(|| usize::read_from_bytes(&enc[..cut])) {
            Ok(Err(_)) => {},
            Ok(Ok(x)) => fail!("truncated-encoding-decoded", "usize", "value {v}: {cut} of {} bytes decoded to {x}", enc.len()),
            Err(p) => fail!("panic", p.site(), "value {v} truncated to {cut} bytes: {}", p.msg),
        }
        stats::count("fault.truncate", 1);
    }
    // writer into a fixed-capacity cursor of exactly the right size
    let mut cur = Cursor::new(vec![0u8; enc.len()]);
    if guard(|| cur.write_usize(v)).is_err() || cur.get_ref() != &enc {
        fail!("cursor-writer-differs", "usize", "value {v}");
    }
    Ok(())
}
