//! The two-party protocol simulation: a prover node and a verifier node built around GenAir,
//! both drawing their challenges from a recording coin, connected by a link that carries the
//! serialised proof. Shared by C01 (honest runs), C02 (false statements), C03 (Byzantine
//! prover), C04/C05 (transport faults), C06 (build/schedule independence), C07, C29.

use std::cell::RefCell;

use air::{
    proof::Proof, Air, AuxRandElements, BatchingMethod, ConstraintCompositionCoefficients, FieldExtension,
    PartitionOptions, ProofOptions, TraceInfo,
};
use crypto::{DefaultRandomCoin, Digest, ElementHasher, Hasher, MerkleTree, RandomCoin, RandomCoinError};
use math::{ExtensibleField, FieldElement, StarkField};
use prover::{
    matrix::ColMatrix, CompositionPoly, CompositionPolyTrace, DefaultConstraintCommitment,
    DefaultConstraintEvaluator, DefaultTraceLde, Prover, StarkDomain, Trace, TracePolyTable,
};
use simcore::{
    rng::{mix, Rng},
    stats,
    tape::{self, Stream},
};
use utils::{Randomizable, Serializable};

use crate::genair::{build_aux_columns, GenAir, GenInputs, GenTrace, Knobs, Spec};

// RECORDING COIN
// ================================================================================================

#[derive(Clone, Debug, PartialEq, Eq)]
pub enum CoinEvent {
    New(Vec<u8>),
    Reseed(Vec<u8>),
    /// (extension degree, element bytes)
    Draw(usize, Vec<u8>),
    /// (count, domain, nonce, values)
    DrawInts(usize, usize, u64, Vec<usize>),
}

thread_local! {
    /// histories of the two parties of the current run: [prover, verifier]
    static HISTORY: RefCell<[Vec<CoinEvent>; 2]> = const { RefCell::new([Vec::new(), Vec::new()]) };
    static ROLE: RefCell<usize> = const { RefCell::new(0) };
    static LZ_CALLS: RefCell<u64> = const { RefCell::new(0) };
}

pub const PROVER: usize = 0;
pub const VERIFIER: usize = 1;

pub fn set_role(r: usize) {
    ROLE.with(|c| *c.borrow_mut() = r);
}
pub fn reset_histories() {
    HISTORY.with(|h| {
        let mut h = h.borrow_mut();
        h[0].clear();
        h[1].clear();
    });
    LZ_CALLS.with(|c| *c.borrow_mut() = 0);
    CAPTURED.with(|c| *c.borrow_mut() = None);
}
pub fn history(role: usize) -> Vec<CoinEvent> {
    HISTORY.with(|h| h.borrow()[role].clone())
}
pub fn pow_checks() -> u64 {
    LZ_CALLS.with(|c| *c.borrow())
}
fn log(e: CoinEvent) {
    let r = ROLE.with(|c| *c.borrow());
    HISTORY.with(|h| h.borrow_mut()[r].push(e));
    stats::count("steps.coin_events", 1);
}

/// `DefaultRandomCoin` plus a record of every state-changing operation and its result: the
/// recorded history the oracles inspect, and what a Byzantine prover learns the challenges from.
pub struct RecordingCoin<H: ElementHasher> {
    inner: DefaultRandomCoin<H>,
    /// replica of the coin state built from hasher primitives, kept in step with `inner`; only
    /// consulted by the Byzantine prover of C05 (see [set_lenient_integer_draws])
    shadow: Shadow<H>,
}

/// the documented coin derivation from hasher primitives (same as C20's reference coin)
struct Shadow<H: ElementHasher> {
    seed: H::Digest,
    counter: u64,
}

impl<H: ElementHasher> Shadow<H> {
    fn next(&mut self) -> H::Digest {
        self.counter += 1;
        H::merge_with_int(self.seed, self.counter)
    }
    fn draw<E: FieldElement>(&mut self) {
        for _ in 0..1000 {
            let d = self.next();
            if E::from_random_bytes(&d.as_bytes()[..E::ELEMENT_BYTES]).is_some() {
                return;
            }
        }
    }
    fn draw_integers(&mut self, n: usize, domain: usize, nonce: u64) -> Vec<usize> {
        self.seed = H::merge_with_int(self.seed, nonce);
        self.counter = 0;
        let mask = (domain - 1) as u64;
        (0..n)
            .map(|_| {
                let d = self.next().as_bytes();
                (u64::from_le_bytes(d[..8].try_into().unwrap()) & mask) as usize
            })
            .collect()
    }
}

thread_local! {
    static LENIENT_INTS: RefCell<bool> = const { RefCell::new(false) };
}

/// A Byzantine prover is not bound by the library coin's preconditions: with this switch on, the
/// PROVER's coin answers `draw_integers(n, domain)` with n >= domain (where the library coin
/// panics) from its replica of the transcript. The verifier's coin is never lenient.
pub fn set_lenient_integer_draws(on: bool) {
    LENIENT_INTS.with(|c| *c.borrow_mut() = on);
}

impl<B: StarkField, H: ElementHasher<BaseField = B>> RandomCoin for RecordingCoin<H> {
    type BaseField = B;
    type Hasher = H;

    fn new(seed: &[B]) -> Self {
        let mut bytes = Vec::with_capacity(seed.len() * B::ELEMENT_BYTES);
        for e in seed {
            e.write_into(&mut bytes);
        }
        log(CoinEvent::New(bytes));
        RecordingCoin { inner: DefaultRandomCoin::new(seed), shadow: Shadow { seed: H::hash_elements(seed), counter: 0 } }
    }
    fn reseed(&mut self, data: H::Digest) {
        log(CoinEvent::Reseed(data.as_bytes().to_vec()));
        self.shadow.seed = H::merge(&[self.shadow.seed, data]);
        self.shadow.counter = 0;
        self.inner.reseed(data)
    }
    fn check_leading_zeros(&self, value: u64) -> u32 {
        LZ_CALLS.with(|c| *c.borrow_mut() += 1);
        self.inner.check_leading_zeros(value)
    }
    fn draw<E: FieldElement<BaseField = B>>(&mut self) -> Result<E, RandomCoinError> {
        let r = self.inner.draw::<E>();
        self.shadow.draw::<E>();
        if let Ok(e) = &r {
            log(CoinEvent::Draw(E::EXTENSION_DEGREE, e.to_bytes()));
        }
        r
    }
    fn draw_integers(&mut self, num_values: usize, domain_size: usize, nonce: u64) -> Result<Vec<usize>, RandomCoinError> {
        let lenient = LENIENT_INTS.with(|c| *c.borrow()) && ROLE.with(|c| *c.borrow()) == PROVER;
        if lenient && num_values >= domain_size && domain_size.is_power_of_two() {
            let v = self.shadow.draw_integers(num_values, domain_size, nonce);
            log(CoinEvent::DrawInts(num_values, domain_size, nonce, v.clone()));
            return Ok(v);
        }
        let r = self.inner.draw_integers(num_values, domain_size, nonce);
        let _ = self.shadow.draw_integers(num_values, domain_size, nonce);
        if let Ok(v) = &r {
            log(CoinEvent::DrawInts(num_values, domain_size, nonce, v.clone()));
        }
        r
    }
}

// PROVER NODE
// ================================================================================================

/// a fault applied to the auxiliary trace before it is committed
#[derive(Clone, Copy, Debug)]
pub struct AuxFault {
    pub col: usize,
    pub step: usize,
    /// the error added to the cell (a small integer, possibly negative)
    pub delta: i64,
    /// recompute the column forward from the damaged cell by its rule, so that the only violated
    /// requirement is the one that produced the cell (the assertion at step 0, or the transition
    /// into `step`)
    pub rebuild_forward: bool,
}

impl AuxFault {
    pub fn flip(col: usize, step: usize) -> Self {
        AuxFault { col, step, delta: 1, rebuild_forward: false }
    }
}

/// what the prover node built for the auxiliary segment (element bytes), for the checkers
#[derive(Clone, Debug, Default)]
pub struct CapturedAux {
    pub ext_degree: usize,
    pub columns: Vec<Vec<Vec<u8>>>,
    pub rands: Vec<Vec<u8>>,
}

thread_local! {
    static CAPTURED: RefCell<Option<CapturedAux>> = const { RefCell::new(None) };
}
pub fn take_captured_aux() -> Option<CapturedAux> {
    CAPTURED.with(|c| c.borrow_mut().take())
}

pub struct GenProver<B: StarkField, H: ElementHasher<BaseField = B>> {
    pub options: ProofOptions,
    pub spec: Spec<B>,
    pub inputs: GenInputs<B>,
    pub aux_tail_seed: u64,
    pub aux_fault: Option<AuxFault>,
    _h: core::marker::PhantomData<H>,
}

impl<B: StarkField, H: ElementHasher<BaseField = B>> GenProver<B, H> {
    pub fn new(options: ProofOptions, spec: Spec<B>, inputs: GenInputs<B>, aux_tail_seed: u64) -> Self {
        GenProver { options, spec, inputs, aux_tail_seed, aux_fault: None, _h: core::marker::PhantomData }
    }
}

#[cfg(not(feature = "async"))]
impl<B, H> Prover for GenProver<B, H>
where
    B: StarkField + ExtensibleField<2> + ExtensibleField<3> + 'static,
    H: ElementHasher<BaseField = B> + Sync + Send,
{
    type BaseField = B;
    type Air = GenAir<B>;
    type Trace = GenTrace<B>;
    type HashFn = H;
    type VC = MerkleTree<H>;
    type RandomCoin = RecordingCoin<H>;
    type TraceLde<E: FieldElement<BaseField = B>> = DefaultTraceLde<E, H, MerkleTree<H>>;
    type ConstraintCommitment<E: FieldElement<BaseField = B>> = DefaultConstraintCommitment<E, H, MerkleTree<H>>;
    type ConstraintEvaluator<'a, E: FieldElement<BaseField = B>> = DefaultConstraintEvaluator<'a, GenAir<B>, E>;

    fn get_pub_inputs(&self, _trace: &GenTrace<B>) -> GenInputs<B> {
        self.inputs.clone()
    }
    fn options(&self) -> &ProofOptions {
        &self.options
    }
    fn new_trace_lde<E: FieldElement<BaseField = B>>(
        &self,
        trace_info: &TraceInfo,
        main_trace: &ColMatrix<B>,
        domain: &StarkDomain<B>,
        partition_option: PartitionOptions,
    ) -> (Self::TraceLde<E>, TracePolyTable<E>) {
        DefaultTraceLde::new(trace_info, main_trace, domain, partition_option)
    }
    fn new_evaluator<'a, E: FieldElement<BaseField = B>>(
        &self,
        air: &'a GenAir<B>,
        aux_rand_elements: Option<AuxRandElements<E>>,
        composition_coefficients: ConstraintCompositionCoefficients<E>,
    ) -> Self::ConstraintEvaluator<'a, E> {
        DefaultConstraintEvaluator::new(air, aux_rand_elements, composition_coefficients)
    }
    fn build_constraint_commitment<E: FieldElement<BaseField = B>>(
        &self,
        composition_poly_trace: CompositionPolyTrace<E>,
        num_constraint_composition_columns: usize,
        domain: &StarkDomain<B>,
        partition_options: PartitionOptions,
    ) -> (Self::ConstraintCommitment<E>, CompositionPoly<E>) {
        DefaultConstraintCommitment::new(composition_poly_trace, num_constraint_composition_columns, domain, partition_options)
    }
    fn build_aux_trace<E: FieldElement<BaseField = B>>(
        &self,
        main_trace: &GenTrace<B>,
        aux_rand_elements: &AuxRandElements<E>,
    ) -> ColMatrix<E> {
        self.aux_trace_impl(main_trace, aux_rand_elements)
    }
}

#[cfg(feature = "async")]
impl<B, H> Prover for GenProver<B, H>
where
    B: StarkField + ExtensibleField<2> + ExtensibleField<3> + 'static,
    H: ElementHasher<BaseField = B> + Sync + Send,
{
    type BaseField = B;
    type Air = GenAir<B>;
    type Trace = GenTrace<B>;
    type HashFn = H;
    type VC = MerkleTree<H>;
    type RandomCoin = RecordingCoin<H>;
    type TraceLde<E: FieldElement<BaseField = B>> = DefaultTraceLde<E, H, MerkleTree<H>>;
    type ConstraintCommitment<E: FieldElement<BaseField = B>> = DefaultConstraintCommitment<E, H, MerkleTree<H>>;
    type ConstraintEvaluator<'a, E: FieldElement<BaseField = B>> = DefaultConstraintEvaluator<'a, GenAir<B>, E>;

    fn get_pub_inputs(&self, _trace: &GenTrace<B>) -> GenInputs<B> {
        self.inputs.clone()
    }
    fn options(&self) -> &ProofOptions {
        &self.options
    }
    async fn new_trace_lde<E: FieldElement<BaseField = B>>(
        &self,
        trace_info: &TraceInfo,
        main_trace: &ColMatrix<B>,
        domain: &StarkDomain<B>,
        partition_option: PartitionOptions,
    ) -> (Self::TraceLde<E>, TracePolyTable<E>) {
        crate::executor::yield_points().await;
        DefaultTraceLde::new(trace_info, main_trace, domain, partition_option)
    }
    async fn new_evaluator<'a, E: FieldElement<BaseField = B>>(
        &self,
        air: &'a GenAir<B>,
        aux_rand_elements: Option<AuxRandElements<E>>,
        composition_coefficients: ConstraintCompositionCoefficients<E>,
    ) -> Self::ConstraintEvaluator<'a, E> {
        crate::executor::yield_points().await;
        DefaultConstraintEvaluator::new(air, aux_rand_elements, composition_coefficients)
    }
    async fn build_constraint_commitment<E: FieldElement<BaseField = B>>(
        &self,
        composition_poly_trace: CompositionPolyTrace<E>,
        num_constraint_composition_columns: usize,
        domain: &StarkDomain<B>,
        partition_options: PartitionOptions,
    ) -> (Self::ConstraintCommitment<E>, CompositionPoly<E>) {
        crate::executor::yield_points().await;
        DefaultConstraintCommitment::new(composition_poly_trace, num_constraint_composition_columns, domain, partition_options)
    }
    async fn build_aux_trace<E: FieldElement<BaseField = B>>(
        &self,
        main_trace: &GenTrace<B>,
        aux_rand_elements: &AuxRandElements<E>,
    ) -> ColMatrix<E> {
        crate::executor::yield_points().await;
        self.aux_trace_impl(main_trace, aux_rand_elements)
    }
}

impl<B: StarkField, H: ElementHasher<BaseField = B>> GenProver<B, H> {
    pub fn aux_trace_impl<E: FieldElement<BaseField = B>>(
        &self,
        main_trace: &GenTrace<B>,
        aux_rand_elements: &AuxRandElements<E>,
    ) -> ColMatrix<E> {
        let rands = aux_rand_elements.rand_elements();
        let main = main_trace.columns();
        let mut tail = Rng::new(mix(&[self.aux_tail_seed, 0xa0c5]));
        let mut cols = build_aux_columns::<B, E>(&self.spec, &main, rands, &mut tail);
        if let Some(f) = self.aux_fault {
            if f.col < cols.len() && f.step < cols[f.col].len() {
                let d = E::from(B::from(f.delta.unsigned_abs() as u32));
                if f.delta >= 0 {
                    cols[f.col][f.step] += d;
                } else {
                    cols[f.col][f.step] -= d;
                }
                if f.rebuild_forward {
                    // auxiliary rules depend on the column itself and on the main trace only
                    let n = self.spec.n;
                    let last_ruled = n - self.spec.exemptions;
                    for t in f.step..n - 1 {
                        if t >= last_ruled {
                            break;
                        }
                        let main_cur: Vec<B> = (0..self.spec.main_width).map(|j| main[j][t]).collect();
                        let aux_cur: Vec<E> = (0..cols.len()).map(|i| cols[i][t]).collect();
                        cols[f.col][t + 1] = self.spec.aux_next_value::<B, E>(f.col, &main_cur, &aux_cur, rands);
                    }
                }
            }
        }
        CAPTURED.with(|c| {
            *c.borrow_mut() = Some(CapturedAux {
                ext_degree: E::EXTENSION_DEGREE,
                columns: cols.iter().map(|col| col.iter().map(|e| e.to_bytes()).collect()).collect(),
                rands: rands.iter().map(|e| e.to_bytes()).collect(),
            })
        });
        ColMatrix::new(cols)
    }
}

// INSTANCE GENERATION
// ================================================================================================

#[derive(Clone, Debug)]
pub struct Instance {
    /// index into c20::COIN_NAMES (hasher x base field)
    pub combo: usize,
    pub knobs: Knobs,
    pub main_width: usize,
    pub aux_width: usize,
    pub num_rands: usize,
    pub log_n: u32,
    pub meta_pad: usize,
    pub trace_seed: u64,
    pub opts: OptParams,
}

#[derive(Clone, Debug)]
pub struct OptParams {
    pub queries: usize,
    pub blowup: usize,
    pub grinding: u32,
    pub extension: u8,
    pub folding: usize,
    pub remainder: usize,
    pub batch_constraints: u8,
    pub batch_deep: u8,
    pub partitions: usize,
    pub hash_rate: usize,
}

fn batching(i: u8) -> BatchingMethod {
    match i {
        0 => BatchingMethod::Linear,
        1 => BatchingMethod::Algebraic,
        _ => BatchingMethod::Horner,
    }
}

impl OptParams {
    pub fn build(&self) -> ProofOptions {
        let ext = match self.extension {
            1 => FieldExtension::None,
            2 => FieldExtension::Quadratic,
            _ => FieldExtension::Cubic,
        };
        ProofOptions::new(
            self.queries,
            self.blowup,
            self.grinding,
            ext,
            self.folding,
            self.remainder,
            batching(self.batch_constraints),
            batching(self.batch_deep),
        )
        .with_partitions(self.partitions, self.hash_rate)
    }
    /// the FRI configurations for which folding would truncate the degree bound before the
    /// remainder size is reached (see DESIGN.md 5): no honest proof exists for them on the pinned
    /// tree; judged under their own key
    pub fn fri_truncates(&self, n: usize) -> bool {
        let mut deg = n; // degree bound + 1
        while deg > self.remainder + 1 {
            if deg % self.folding != 0 {
                return true;
            }
            deg /= self.folding;
        }
        false
    }
}

impl Instance {
    pub fn describe(&self) -> String {
        format!(
            "{{\"combo\":\"{}\",\"main_width\":{},\"aux_width\":{},\"aux_rands\":{},\"trace_len\":{},\"meta_bytes\":{},\"max_degree\":{},\"exemptions_requested\":{},\"assertion_density\":{},\"periodic_cols\":{},\"queries\":{},\"blowup\":{},\"grinding\":{},\"extension\":{},\"folding\":{},\"remainder_max_degree\":{},\"batching\":[{},{}],\"partitions\":[{},{}]}}",
            crate::c20::COIN_NAMES[self.combo], self.main_width, self.aux_width, self.num_rands, 1usize << self.log_n,
            crate::genair::META_LEN + self.meta_pad, self.knobs.max_degree, self.knobs.exemptions, self.knobs.assertion_density,
            self.knobs.periodic_cols, self.opts.queries, self.opts.blowup, self.opts.grinding, self.opts.extension,
            self.opts.folding, self.opts.remainder, self.opts.batch_constraints, self.opts.batch_deep, self.opts.partitions, self.opts.hash_rate
        )
    }
    pub fn trace_info(&self) -> TraceInfo {
        TraceInfo::new_multi_segment(self.main_width, self.aux_width, self.num_rands, 1 << self.log_n, self.knobs.to_meta(self.meta_pad))
    }
    /// class signature for evidence: configuration class of the instance
    pub fn class_sig(&self) -> u64 {
        mix(&[
            self.combo as u64,
            self.opts.extension as u64,
            self.opts.folding as u64,
            (self.opts.remainder as u64 + 1).ilog2() as u64,
            self.opts.blowup.ilog2() as u64,
            self.log_n as u64,
            (self.aux_width > 0) as u64,
            (self.opts.partitions > 1) as u64,
            self.opts.batch_constraints as u64 * 3 + self.opts.batch_deep as u64,
            self.knobs.periodic_cols as u64,
            (self.main_width.min(40)) as u64,
            (self.opts.queries.min(64)) as u64,
        ])
    }
}

/// size limits of a scenario
#[derive(Clone, Copy)]
pub struct Limits {
    pub max_log_n: u32,
    pub max_log_lde: u32,
    pub max_width: usize,
    pub max_grinding: u32,
    pub allow_meta_pad: bool,
}

pub const SMALL: Limits = Limits { max_log_n: 8, max_log_lde: 12, max_width: 40, max_grinding: 8, allow_meta_pad: true };
pub const MEDIUM: Limits = Limits { max_log_n: 11, max_log_lde: 15, max_width: 255, max_grinding: 12, allow_meta_pad: true };
pub const LARGE: Limits = Limits { max_log_n: 13, max_log_lde: 18, max_width: 255, max_grinding: 12, allow_meta_pad: true };

/// two-adicity and extension support per base field index (0 f62, 1 f64, 2 f128), and base field
/// index per hasher/field combination
pub fn combo_field(combo: usize) -> usize {
    match combo {
        0 | 3 | 6 | 11 => 0,
        1 | 4 | 7 | 9 | 10 => 1,
        _ => 2,
    }
}

/// draws a complete instance (AIR shape, trace size, options) from the workload stream, within
/// the documented preconditions: queries < LDE size, blowup >= the AIR's minimum, extension
/// supported by the field
pub fn draw_instance(lim: &Limits) -> Instance {
    let combo = tape::w("inst.combo", 12) as usize;
    let field = combo_field(combo);
    let rescue = combo >= 9;
    // trace length
    let log_n = match tape::w("inst.len.class", 6) {
        0 => 3,
        1 => 4,
        2 | 3 => 3 + tape::w("inst.len.small", 4) as u32,
        // where the limits allow long traces, one class in six stays in the top of the range (the
        // per-fragment constraint evaluation, the concurrent FFT / Merkle / transposition paths
        // and the batched divisor code only run there)
        5 if lim.max_log_n >= 10 => lim.max_log_n - tape::w("inst.len.top", 3) as u32,
        _ => 3 + tape::w("inst.len.any", (lim.max_log_n - 2) as u64) as u32,
    }
    .min(lim.max_log_n);
    // widths
    let width_cap = if rescue { lim.max_width.min(24) } else { lim.max_width };
    let aux = tape::w("inst.aux", 3) == 0;
    let mut main_width = match tape::w("inst.width.class", 8) {
        0 => 1,
        1 => 2,
        2 | 3 | 4 => 1 + tape::w("inst.width.small", 12) as usize,
        5 => width_cap,
        6 => width_cap.saturating_sub(1).max(1),
        _ => 1 + tape::w("inst.width.any", width_cap as u64) as usize,
    }
    .min(width_cap);
    let (mut aux_width, mut num_rands) = (0, 0);
    if aux {
        aux_width = match tape::w("inst.auxw.class", 4) {
            0 => 1,
            1 | 2 => 1 + tape::w("inst.auxw.small", 8) as usize,
            _ => 1 + tape::w("inst.auxw.any", 40) as usize,
        };
        num_rands = match tape::w("inst.rands.class", 3) {
            0 => 1,
            1 => 1 + tape::w("inst.rands.small", 16) as usize,
            _ => 1 + tape::w("inst.rands.any", 255) as usize,
        };
        if main_width + aux_width > width_cap.max(2) {
            if main_width > aux_width {
                main_width = (width_cap.max(2) - aux_width).max(1);
            } else {
                aux_width = (width_cap.max(2) - main_width).max(1);
            }
        }
    }
    // a very wide auxiliary segment on a very short trace: the shape in which the row-major LDE
    // of extension columns has more 8-column segments than rows
    let wide_aux = lim.max_width >= 40 && !rescue && tape::w("inst.wide_aux", 40) == 39;
    if wide_aux {
        aux_width = 150 + tape::w("inst.wide_aux.width", 105) as usize;
        main_width = 1 + tape::w("inst.wide_aux.main", (255 - aux_width) as u64) as usize;
        num_rands = 1 + tape::w("inst.wide_aux.rands", 4) as usize;
    }
    let log_n = if wide_aux { 3 + tape::w("inst.wide_aux.len", 2) as u32 } else { log_n };
    // very wide traces only on short ones (cost)
    if main_width + aux_width > 64 && log_n > 7 {
        main_width = main_width.min(48);
        aux_width = aux_width.min(16);
    }
    let knobs = Knobs {
        seed: tape::bits64(Stream::Workload, "inst.struct_seed"),
        max_degree: if wide_aux { 1 + tape::w("inst.max_degree.wide", 2) as u8 } else { [1u8, 2, 2, 3, 4, 8][tape::w("inst.max_degree", 6) as usize] },
        exemptions: match tape::w("inst.exempt.class", 4) {
            0 | 1 => 1,
            2 => 2 + tape::w("inst.exempt.small", 4) as u16,
            _ => 1 + tape::w("inst.exempt.any", 1 << log_n) as u16,
        },
        assertion_density: tape::w("inst.assert_density", 3) as u8,
        periodic_cols: tape::w("inst.periodic", 4) as u8,
        degenerate: tape::w("inst.degenerate", 150) == 149,
    };
    let meta_pad = if lim.allow_meta_pad {
        match tape::w("inst.meta_pad.class", 12) {
            0 => 1,
            1 => 65535 - crate::genair::META_LEN,
            2 => tape::w("inst.meta_pad.any", 300) as usize,
            _ => 0,
        }
    } else {
        0
    };
    // the AIR decides the minimum blowup
    let info = TraceInfo::new_multi_segment(main_width, aux_width, num_rands, 1 << log_n, knobs.to_meta(0));
    let min_blowup = match field {
        0 => Spec::<crate::fields::F62>::derive(&knobs, &info).min_blowup(),
        1 => Spec::<crate::fields::F64>::derive(&knobs, &info).min_blowup(),
        _ => Spec::<crate::fields::F128>::derive(&knobs, &info).min_blowup(),
    };
    let min_log_b = min_blowup.ilog2();
    let max_log_b = (lim.max_log_lde.saturating_sub(log_n)).clamp(min_log_b, 7);
    let log_b = if wide_aux && tape::w("opt.blowup.wide_min", 2) == 0 {
        min_log_b
    } else {
        min_log_b + tape::w("opt.blowup", (max_log_b - min_log_b + 1) as u64) as u32
    };
    let blowup = 1usize << log_b;
    let lde = (1usize << log_n) * blowup;
    let queries = match tape::w("opt.queries.class", 8) {
        0 => 1,
        1 => 2,
        2 => 255,
        3 => 254,
        4 => 1 + tape::w("opt.queries.small", 12) as usize,
        _ => 1 + tape::w("opt.queries.any", 255) as usize,
    }
    .min(lde - 1);
    let extension = match field {
        0 | 1 if wide_aux && tape::w("opt.extension.wide_cubic", 2) == 0 => 3,
        2 => 1 + tape::w("opt.extension", 2) as u8,
        _ => 1 + tape::w("opt.extension", 3) as u8,
    };
    let opts = OptParams {
        queries,
        blowup,
        grinding: match tape::w("opt.grinding.class", 4) {
            0 => 0,
            1 => 1 + tape::w("opt.grinding.small", 4) as u32,
            _ => tape::w("opt.grinding.any", lim.max_grinding as u64 + 1) as u32,
        },
        extension,
        folding: [2usize, 4, 8, 16][tape::w("opt.folding", 4) as usize],
        remainder: (1usize << tape::w("opt.remainder", 9)) - 1,
        batch_constraints: tape::w("opt.batch_constraints", 3) as u8,
        batch_deep: tape::w("opt.batch_deep", 3) as u8,
        partitions: if tape::w("opt.partitions.on", 3) == 0 { 1 + tape::w("opt.partitions", 16) as usize } else { 1 },
        hash_rate: match tape::w("opt.hash_rate.class", 4) {
            0 => 1,
            1 => [4usize, 7, 8, 12, 16][tape::w("opt.hash_rate.typical", 5) as usize],
            _ => 1 + tape::w("opt.hash_rate.any", 255) as usize,
        },
    };
    Instance {
        combo,
        knobs,
        main_width,
        aux_width,
        num_rands,
        log_n,
        meta_pad,
        trace_seed: tape::bits64(Stream::Workload, "inst.trace_seed"),
        opts,
    }
}

// RUNNING THE PROTOCOL
// ================================================================================================

/// everything the prover side of a run produces
pub struct Proved<B: StarkField> {
    pub spec: Spec<B>,
    pub inputs: GenInputs<B>,
    pub main: Vec<Vec<B>>,
    pub proof: Proof,
    pub aux: Option<CapturedAux>,
}

pub fn hash_bytes(b: &[u8]) -> u64 {
    simcore::rng::fnv(b)
}

#[allow(dead_code)]
pub fn digest_hex<H: Hasher>(d: &H::Digest) -> String {
    crate::streams::hex(&d.as_bytes())
}
