//! C18 - Merkle trees and openings against a recursive-hash reference model, under the simulated
//! scheduler; C19 - openings as messages over a faulty link: substitutions must be rejected,
//! malformed proofs must not panic.

use crypto::{
    hashers::{Blake3_192, Blake3_256, Rp62_248, Rp64_256, RpJive64_256, Sha3_256},
    BatchMerkleProof, Hasher, MerkleTree,
};
use simcore::{
    driver::Scenario,
    fail, guard, stats,
    tape::{self, Stream},
    Outcome,
};
use utils::{Deserializable, Serializable};

use crate::{
    fields::{F128, F62, F64},
    sched,
    streams::hex,
};

pub const HASHER_NAMES: [&str; 6] = ["Blake3_256", "Blake3_192", "Sha3_256", "Rp64_256", "RpJive64_256", "Rp62_248"];

#[macro_export]
macro_rules! with_hasher {
    ($idx:expr, $H:ident => $body:expr) => {
        match $idx {
            0 => { type $H = Blake3_256<F128>; $body },
            1 => { type $H = Blake3_192<F64>; $body },
            2 => { type $H = Sha3_256<F62>; $body },
            3 => { type $H = Rp64_256; $body },
            4 => { type $H = RpJive64_256; $body },
            _ => { type $H = Rp62_248; $body },
        }
    };
}

pub fn scenarios() -> Vec<Scenario> {
    vec![
        Scenario::new(
            "C18",
            "tree-model",
            "MerkleTree::new (sequential, and parallel above 1024 leaves) vs recursive pairwise hash; single openings; batch openings for index sets in any order; from_single_proofs == prove_batch; into_openings == single openings",
            run_c18,
            4_000,
            100_000,
        ),
        Scenario::new(
            "C19",
            "substitution",
            "opening sent over a faulty link: one leaf / proof node / index substituted (same shape), duplicate or out-of-range index: verification must return Err",
            run_c19_subst,
            30_000,
            600_000,
        ),
        Scenario::new(
            "C19",
            "malformed",
            "shape-changing faults on batch proofs (depth byte, node-vector counts, missing/extra nodes, leaf/index count mismatch, empty lists) and on their encodings (bit flips, truncation, random bytes): get_root / verify_batch / into_openings / deserialisation must not panic",
            run_c19_malformed,
            40_000,
            800_000,
        ),
    ]
}

fn clone_proof<H: Hasher>(p: &BatchMerkleProof<H>) -> BatchMerkleProof<H> {
    BatchMerkleProof { nodes: p.nodes.clone(), depth: p.depth }
}

fn eq_proof<H: Hasher>(a: &BatchMerkleProof<H>, b: &BatchMerkleProof<H>) -> bool {
    a.depth == b.depth && a.nodes == b.nodes
}

fn make_leaves<H: Hasher>(n: usize, salt: u64) -> Vec<H::Digest> {
    (0..n as u64)
        .map(|i| {
            let mut b = [0u8; 16];
            b[..8].copy_from_slice(&i.to_le_bytes());
            b[8..].copy_from_slice(&salt.to_le_bytes());
            H::hash(&b)
        })
        .collect()
}

/// reference: root = recursive pairwise hash; also returns every level (level[0] = leaves)
fn reference_levels<H: Hasher>(leaves: &[H::Digest]) -> Vec<Vec<H::Digest>> {
    let mut levels = vec![leaves.to_vec()];
    while levels.last().unwrap().len() > 1 {
        let prev = levels.last().unwrap();
        let next: Vec<H::Digest> = prev.chunks(2).map(|c| H::merge(&[c[0], c[1]])).collect();
        levels.push(next);
    }
    levels
}

fn reference_path<H: Hasher>(levels: &[Vec<H::Digest>], mut idx: usize) -> Vec<H::Digest> {
    let mut path = Vec::new();
    for level in levels.iter().take(levels.len() - 1) {
        path.push(level[idx ^ 1]);
        idx >>= 1;
    }
    path
}

/// a non-empty duplicate-free index set in a tape-chosen order
fn draw_indexes(n: usize) -> Vec<usize> {
    let max = n.min(255);
    let k = match tape::w("idx.count.class", 5) {
        0 => 1,
        1 => 2,
        2 => max,
        _ => 1 + tape::w("idx.count", max as u64) as usize,
    };
    let mut set: Vec<usize> = Vec::new();
    let style = tape::w("idx.style", 4);
    match style {
        0 => {
            // clustered run starting at a random point (siblings included)
            let start = tape::w("idx.start", n as u64) as usize;
            for j in 0..k {
                set.push((start + j) % n);
            }
        },
        1 => {
            // sibling pairs
            let mut rng = tape::fork(Stream::Workload, "idx.pairs");
            while set.len() < k {
                let i = (rng.below(n as u64) as usize) & !1;
                for c in [i, i + 1] {
                    if !set.contains(&c) && set.len() < k {
                        set.push(c);
                    }
                }
            }
        },
        _ => {
            let mut rng = tape::fork(Stream::Workload, "idx.spread");
            while set.len() < k {
                let i = rng.below(n as u64) as usize;
                if !set.contains(&i) {
                    set.push(i);
                }
            }
        },
    }
    set.sort_unstable();
    set.dedup();
    match tape::w("idx.order", 3) {
        0 => {},
        1 => set.reverse(),
        _ => {
            let mut rng = tape::fork(Stream::Workload, "idx.shuffle");
            for i in (1..set.len()).rev() {
                let j = rng.below(i as u64 + 1) as usize;
                set.swap(i, j);
            }
            stats::probe("probe.unsorted_index_list");
        },
    }
    set
}

// C18
// ================================================================================================

fn run_c18() -> Outcome {
    let threads = sched::begin(false);
    let hidx = tape::w("hasher", 6) as usize;
    let rescue = hidx >= 3;
    let logn = match tape::w("size.class", 6) {
        0 => 1 + tape::w("size.tiny", 3),
        1 => 4 + tape::w("size.small", 5),
        2 | 3 => 10 + tape::w("size.thr", 2), // 1024 (sequential) and 2048 (parallel)
        4 => 11 + tape::w("size.large", if rescue { 1 } else { 4 }),
        _ => 1 + tape::w("size.any", if rescue { 11 } else { 14 }),
    } as usize;
    let n = 1usize << logn;
    stats::sig((hidx * 100 + logn) as u64);
    stats::sample(|| format!("{{\"hasher\":\"{}\",\"leaves\":{n},\"threads\":{threads}}}", HASHER_NAMES[hidx]));
    let r = with_hasher!(hidx, H => c18_case::<H>(n, threads, HASHER_NAMES[hidx]));
    if n > 1024 && threads > 1 && cfg!(feature = "concurrent") {
        stats::probe("probe.parallel_tree_build_with_several_workers");
    }
    stats::nontrivial();
    r
}

fn c18_case<H: Hasher>(n: usize, threads: usize, hname: &str) -> Outcome {
    let salt = tape::bits64(Stream::Workload, "leaf.salt");
    let leaves = make_leaves::<H>(n, salt);
    let levels = reference_levels::<H>(&leaves);
    let want_root = levels.last().unwrap()[0];
    let ctx = format!("{hname} leaves={n} threads={threads}");
    let tree = match guard(|| MerkleTree::<H>::new(leaves.clone())) {
        Ok(Ok(t)) => t,
        Ok(Err(e)) => fail!("tree-construction-failed", "MerkleTree::new", "{ctx}: {e:?}"),
        Err(p) => fail!("panic", p.site(), "{ctx}: MerkleTree::new: {}", p.msg),
    };
    if *tree.root() != want_root {
        fail!("root-differs-from-recursive-hash", "MerkleTree::new", "{ctx}");
    }
    if tree.leaves() != &leaves[..] || tree.depth() != n.ilog2() as usize {
        fail!("tree-shape-differs", "MerkleTree::new", "{ctx}");
    }
    // parallel build equals sequential build, node for node
    #[cfg(feature = "concurrent")]
    if n > 1024 {
        let seq = crypto::build_merkle_nodes::<H>(&leaves);
        let par = match guard(|| crypto::concurrent::build_merkle_nodes::<H>(&leaves)) {
            Ok(v) => v,
            Err(p) => fail!("panic", p.site(), "{ctx}: concurrent::build_merkle_nodes: {}", p.msg),
        };
        if n >= 4 && seq[1..] != par[1..] {
            let i = (1..seq.len()).find(|&i| seq[i] != par[i]).unwrap();
            fail!("parallel-build-differs-from-sequential", "concurrent::build_merkle_nodes", "{ctx}: node {i}");
        }
    }
    // single openings
    let singles: Vec<usize> = if n <= 64 {
        (0..n).collect()
    } else {
        let mut v = vec![0, 1, n - 1, n / 2, n / 2 - 1];
        for _ in 0..8 {
            v.push(tape::w("single.index", n as u64) as usize);
        }
        v
    };
    for &i in singles.iter() {
        let (leaf, proof) = match guard(|| tree.prove(i)) {
            Ok(Ok(o)) => o,
            Ok(Err(e)) => fail!("single-opening-failed", "prove", "{ctx} index {i}: {e:?}"),
            Err(p) => fail!("panic", p.site(), "{ctx}: prove({i}): {}", p.msg),
        };
        if leaf != leaves[i] || proof != reference_path::<H>(&levels, i) {
            fail!("single-opening-differs-from-reference-path", "prove", "{ctx} index {i}");
        }
        match guard(|| MerkleTree::<H>::verify(want_root, i, leaf, &proof)) {
            Ok(Ok(())) => {},
            Ok(Err(e)) => fail!("single-opening-does-not-verify", "verify", "{ctx} index {i}: {e:?}"),
            Err(p) => fail!("panic", p.site(), "{ctx}: verify({i}): {}", p.msg),
        }
    }
    // batch openings
    let rounds = 1 + tape::w("batch.rounds", 3);
    for _ in 0..rounds {
        let indexes = draw_indexes(n);
        stats::count("steps.batch_openings", 1);
        stats::sig((indexes.len() as u64) << 8 | (indexes.windows(2).all(|w| w[0] < w[1]) as u64));
        let bctx = format!("{ctx} indexes={:?}", &indexes[..indexes.len().min(12)]);
        let (bleaves, bproof) = match guard(|| tree.prove_batch(&indexes)) {
            Ok(Ok(o)) => o,
            Ok(Err(e)) => fail!("batch-opening-failed", "prove_batch", "{bctx}: {e:?}"),
            Err(p) => fail!("panic", p.site(), "{bctx}: prove_batch: {}", p.msg),
        };
        let want_leaves: Vec<H::Digest> = indexes.iter().map(|&i| leaves[i]).collect();
        if bleaves != want_leaves {
            fail!("batch-opening-leaves-not-in-given-order", "prove_batch", "{bctx}");
        }
        match guard(|| MerkleTree::<H>::verify_batch(&want_root, &indexes, &bleaves, &bproof)) {
            Ok(Ok(())) => {},
            Ok(Err(e)) => fail!("batch-opening-does-not-verify", "verify_batch", "{bctx}: {e:?}"),
            Err(p) => fail!("panic", p.site(), "{bctx}: verify_batch: {}", p.msg),
        }
        match guard(|| bproof.get_root(&indexes, &bleaves)) {
            Ok(Ok(r)) if r == want_root => {},
            Ok(other) => fail!("batch-proof-does-not-reconstruct-root", "get_root", "{bctx}: {}", if other.is_ok() { "different root" } else { "error" }),
            Err(p) => fail!("panic", p.site(), "{bctx}: get_root: {}", p.msg),
        }
        // assembled from single openings == built directly
        let single_proofs: Vec<_> = indexes.iter().map(|&i| (leaves[i], reference_path::<H>(&levels, i))).collect();
        match guard(|| BatchMerkleProof::<H>::from_single_proofs(&single_proofs, &indexes)) {
            Ok(assembled) => {
                if !eq_proof(&assembled, &bproof) {
                    fail!("from-single-proofs-differs-from-prove-batch", "from_single_proofs", "{bctx}");
                }
            },
            Err(p) => fail!("panic", p.site(), "{bctx}: from_single_proofs: {}", p.msg),
        }
        // expands back into exactly the single openings, in the given order
        match guard(|| clone_proof(&bproof).into_openings(&bleaves, &indexes)) {
            Ok(Ok(openings)) => {
                if openings != single_proofs {
                    let k = openings.iter().zip(single_proofs.iter()).position(|(a, b)| a != b).unwrap_or(0);
                    fail!("into-openings-differs-from-single-openings", "into_openings", "{bctx}: opening #{k} (index {})", indexes.get(k).copied().unwrap_or(0));
                }
            },
            Ok(Err(e)) => fail!("into-openings-failed", "into_openings", "{bctx}: {e:?}"),
            Err(p) => fail!("panic", p.site(), "{bctx}: into_openings: {}", p.msg),
        }
        // the encoded proof decodes to an equal proof
        let bytes = bproof.to_bytes();
        match guard(|| BatchMerkleProof::<H>::read_from_bytes(&bytes)) {
            Ok(Ok(p2)) if eq_proof(&p2, &bproof) => {},
            _ => fail!("batch-proof-encoding-does-not-round-trip", "BatchMerkleProof", "{bctx}"),
        }
    }
    Ok(())
}

// C19: substitutions
// ================================================================================================

fn run_c19_subst() -> Outcome {
    let hidx = tape::w("hasher", 6) as usize;
    let logn = 1 + tape::w("size", if hidx >= 3 { 6 } else { 9 }) as usize;
    stats::sig((hidx * 100 + logn) as u64);
    let r = with_hasher!(hidx, H => c19_subst::<H>(1 << logn, HASHER_NAMES[hidx]));
    stats::nontrivial();
    r
}

fn other_digest<H: Hasher>(d: H::Digest, salt: u64) -> H::Digest {
    // a digest different from `d` (a fresh hash; equal only with negligible probability)
    let mut b = d.to_bytes();
    b.extend_from_slice(&salt.to_le_bytes());
    let o = H::hash(&b);
    if o == d {
        H::hash(&[1, 2, 3])
    } else {
        o
    }
}

fn c19_subst<H: Hasher>(n: usize, hname: &str) -> Outcome {
    let salt = tape::bits64(Stream::Workload, "leaf.salt");
    let leaves = make_leaves::<H>(n, salt);
    let tree = MerkleTree::<H>::new(leaves.clone()).expect("tree");
    let root = *tree.root();
    let single = tape::w("mode.single", 3) == 0;
    if single {
        let i = tape::w("index", n as u64) as usize;
        let (leaf, proof) = tree.prove(i).expect("prove");
        let (mut i2, mut leaf2, mut proof2) = (i, leaf, proof.clone());
        let kind = match tape::f("single.fault", 3) {
            0 => {
                leaf2 = other_digest::<H>(leaf, 1);
                "leaf_sub"
            },
            1 => {
                let j = tape::f("single.node", proof.len() as u64) as usize;
                proof2[j] = other_digest::<H>(proof[j], 2);
                "node_sub"
            },
            _ => {
                if n < 2 {
                    return Ok(());
                }
                i2 = (i + 1 + tape::f("single.index", (n - 1) as u64) as usize) % n;
                "index_sub"
            },
        };
        stats::count(&format!("fault.single_{kind}"), 1);
        stats::sig_str(kind);
        stats::sig(i as u64);
        stats::sample(|| format!("{{\"hasher\":\"{hname}\",\"leaves\":{n},\"mode\":\"single\",\"index\":{i},\"fault\":\"{kind}\"}}"));
        return match guard(|| MerkleTree::<H>::verify(root, i2, leaf2, &proof2)) {
            Ok(Err(_)) => Ok(()),
            Ok(Ok(())) => fail!("accepts-substituted-opening", format!("single/{kind}"), "{hname} leaves={n} index {i} -> {i2}: {kind} accepted"),
            Err(p) => fail!("panic", p.site(), "{hname} leaves={n} single {kind}: {}", p.msg),
        };
    }
    let indexes = draw_indexes(n);
    let (bleaves, bproof) = tree.prove_batch(&indexes).expect("prove_batch");
    let (mut idx2, mut leaves2, mut proof2) = (indexes.clone(), bleaves.clone(), clone_proof(&bproof));
    let kind = match tape::f("batch.fault", 6) {
        5 => {
            // an index listed twice with something in between: the first copy carries a forged
            // leaf, the second copy the genuine one (the proof is the honest one for the set); a
            // verifier that keeps only the last copy of an index never hashes the forged leaf
            if idx2.len() < 2 {
                return Ok(());
            }
            let k = tape::f("batch.duppos", idx2.len() as u64 - 1) as usize;
            let (i, genuine) = (idx2[k], leaves2[k]);
            let forged = other_digest::<H>(genuine, 5);
            // which copy carries the forged leaf (a verifier may keep the first or the last)
            let forged_first = tape::f("batch.dup_forged_first", 2) == 0;
            leaves2[k] = if forged_first { forged } else { genuine };
            // at the end, or anywhere after at least one other entry
            let at = k + 2 + tape::f("batch.dupgap", (idx2.len() - k - 1) as u64) as usize;
            idx2.insert(at.min(idx2.len()), i);
            leaves2.insert(at.min(leaves2.len()), if forged_first { genuine } else { forged });
            "index_dup_apart_with_one_forged_copy"
        },
        0 => {
            let k = tape::f("batch.leaf", leaves2.len() as u64) as usize;
            leaves2[k] = other_digest::<H>(leaves2[k], 3);
            "leaf_sub"
        },
        1 => {
            let nonempty: Vec<usize> = (0..proof2.nodes.len()).filter(|&v| !proof2.nodes[v].is_empty()).collect();
            if nonempty.is_empty() {
                return Ok(());
            }
            let v = nonempty[tape::f("batch.nodevec", nonempty.len() as u64) as usize];
            let j = tape::f("batch.node", proof2.nodes[v].len() as u64) as usize;
            proof2.nodes[v][j] = other_digest::<H>(proof2.nodes[v][j], 4);
            "node_sub"
        },
        2 => {
            // another in-range index that is not in the set
            let free: Vec<usize> = (0..n).filter(|i| !indexes.contains(i)).collect();
            if free.is_empty() {
                return Ok(());
            }
            let k = tape::f("batch.idxpos", idx2.len() as u64) as usize;
            idx2[k] = free[tape::f("batch.idxnew", free.len() as u64) as usize];
            "index_sub"
        },
        3 => {
            if idx2.len() < 2 {
                return Ok(());
            }
            let k = tape::f("batch.duppos", idx2.len() as u64) as usize;
            let from = (k + 1) % idx2.len();
            idx2[k] = idx2[from];
            "index_dup"
        },
        _ => {
            let k = tape::f("batch.oorpos", idx2.len() as u64) as usize;
            idx2[k] = match tape::f("batch.oor", 3) {
                0 => n,
                1 => idx2[k] + n,
                _ => usize::MAX / 2,
            };
            "index_out_of_range"
        },
    };
    stats::count(&format!("fault.batch_{kind}"), 1);
    stats::sig_str(kind);
    stats::sig(indexes.len() as u64);
    stats::sample(|| format!("{{\"hasher\":\"{hname}\",\"leaves\":{n},\"mode\":\"batch\",\"indexes\":{:?},\"fault\":\"{kind}\"}}", &indexes[..indexes.len().min(10)]));
    match guard(|| MerkleTree::<H>::verify_batch(&root, &idx2, &leaves2, &proof2)) {
        Ok(Err(_)) => Ok(()),
        Ok(Ok(())) => fail!("accepts-substituted-opening", format!("batch/{kind}"), "{hname} leaves={n} indexes {:?} -> {:?}: {kind} accepted", &indexes[..indexes.len().min(10)], &idx2[..idx2.len().min(10)]),
        Err(p) => fail!("panic", p.site(), "{hname} leaves={n} batch {kind}: {}", p.msg),
    }
}

// C19: malformed proofs
// ================================================================================================

fn run_c19_malformed() -> Outcome {
    let hidx = tape::w("hasher", 6) as usize;
    let logn = 1 + tape::w("size", if hidx >= 3 { 5 } else { 8 }) as usize;
    stats::sig((hidx * 100 + logn) as u64);
    let r = with_hasher!(hidx, H => c19_malformed::<H>(1 << logn, HASHER_NAMES[hidx]));
    stats::nontrivial();
    r
}

fn c19_malformed<H: Hasher>(n: usize, hname: &str) -> Outcome {
    let leaves = make_leaves::<H>(n, 7);
    let tree = MerkleTree::<H>::new(leaves.clone()).expect("tree");
    let root = *tree.root();
    let indexes = draw_indexes(n);
    let (bleaves, bproof) = tree.prove_batch(&indexes).expect("prove_batch");
    let (mut idx2, mut leaves2, mut proof2) = (indexes.clone(), bleaves.clone(), clone_proof(&bproof));
    let nfaults = 1 + tape::f("malformed.count", 3);
    let mut kinds = Vec::new();
    let mut from_bytes = false;
    for _ in 0..nfaults {
        let kind = match tape::f("malformed.kind", 12) {
            0 => {
                proof2.depth = [0u8, 1, 2, 62, 63, 64, 65, 127, 128, 255, proof2.depth.wrapping_add(1), proof2.depth.wrapping_sub(1)][tape::f("malformed.depth", 12) as usize];
                "depth_byte"
            },
            1 => {
                if !proof2.nodes.is_empty() {
                    let v = tape::f("malformed.vec", proof2.nodes.len() as u64) as usize;
                    proof2.nodes.remove(v);
                }
                "drop_node_vector"
            },
            2 => {
                proof2.nodes.push(vec![root]);
                "extra_node_vector"
            },
            3 => {
                if !proof2.nodes.is_empty() {
                    let v = tape::f("malformed.vec", proof2.nodes.len() as u64) as usize;
                    proof2.nodes[v].pop();
                }
                "drop_node"
            },
            4 => {
                if !proof2.nodes.is_empty() {
                    let v = tape::f("malformed.vec", proof2.nodes.len() as u64) as usize;
                    proof2.nodes[v].clear();
                }
                "empty_node_vector"
            },
            5 => {
                leaves2.pop();
                "drop_leaf"
            },
            6 => {
                leaves2.push(root);
                "extra_leaf"
            },
            7 => {
                idx2.pop();
                "drop_index"
            },
            8 => {
                if tape::f("malformed.idx_kind", 2) == 0 {
                    idx2.push(tape::f("malformed.newidx", 2 * n as u64) as usize);
                    "extra_index"
                } else if !idx2.is_empty() {
                    // an index no tree can have: arithmetic on it must not overflow into a panic
                    let k = tape::f("malformed.hugepos", idx2.len() as u64) as usize;
                    idx2[k] = [usize::MAX, usize::MAX - 1, usize::MAX / 2 + 1, 1 << 63, (1 << 63) - 1, usize::MAX - n][tape::f("malformed.huge", 6) as usize];
                    "huge_index"
                } else {
                    "extra_index"
                }
            },
            9 => {
                idx2.clear();
                leaves2.clear();
                "empty_lists"
            },
            10 => {
                proof2.nodes.clear();
                "no_node_vectors"
            },
            _ => {
                // through the wire: damage the encoding, then decode
                let mut bytes = proof2.to_bytes();
                match tape::f("malformed.wire", 4) {
                    0 => {
                        if !bytes.is_empty() {
                            let p = tape::f("malformed.pos", bytes.len().min(24) as u64) as usize;
                            bytes[p] ^= 1 << tape::f("malformed.bit", 8);
                        }
                    },
                    1 => {
                        let cut = tape::f("malformed.cut", bytes.len() as u64 + 1) as usize;
                        bytes.truncate(cut);
                    },
                    2 => {
                        if bytes.len() > 1 {
                            // the node-vector count
                            bytes[1] = [0u8, 1, 3, 0xff, 0x80, 0xfe][tape::f("malformed.count_byte", 6) as usize];
                        }
                    },
                    _ => {
                        let mut rng = tape::fork(Stream::Faults, "malformed.random");
                        let len = rng.below(64) as usize;
                        bytes = (0..len).map(|_| rng.next_u64() as u8).collect();
                    },
                }
                from_bytes = true;
                match guard(|| BatchMerkleProof::<H>::read_from_bytes(&bytes)) {
                    Ok(Ok(p)) => proof2 = p,
                    Ok(Err(_)) => {
                        stats::count("fault.wire_damage_rejected_by_decoder", 1);
                        return Ok(());
                    },
                    Err(p) => fail!("panic", p.site(), "{hname}: decoding a damaged batch proof ({}): {}", hex(&bytes), p.msg),
                }
                "wire_damage"
            },
        };
        stats::count(&format!("fault.{kind}"), 1);
        stats::sig_str(kind);
        kinds.push(kind);
    }
    let _ = from_bytes;
    stats::sample(|| format!("{{\"hasher\":\"{hname}\",\"leaves\":{n},\"faults\":{kinds:?},\"depth\":{},\"node_vectors\":{},\"indexes\":{},\"leaves_given\":{}}}", proof2.depth, proof2.nodes.len(), idx2.len(), leaves2.len()));
    let ctx = format!("{hname} leaves={n} faults={kinds:?} depth={} node_vectors={} indexes={} leaves_given={}", proof2.depth, proof2.nodes.len(), idx2.len(), leaves2.len());
    if let Err(p) = guard(|| proof2.get_root(&idx2, &leaves2).is_ok()) {
        fail!("panic", p.site(), "{ctx}: get_root: {}", p.msg);
    }
    if let Err(p) = guard(|| MerkleTree::<H>::verify_batch(&root, &idx2, &leaves2, &proof2).is_ok()) {
        fail!("panic", p.site(), "{ctx}: verify_batch: {}", p.msg);
    }
    if let Err(p) = guard(|| clone_proof(&proof2).into_openings(&leaves2, &idx2).is_ok()) {
        fail!("panic", p.site(), "{ctx}: into_openings: {}", p.msg);
    }
    Ok(())
}
