//! Synthetic scenarios that exercise the machinery itself (not listed in MANIFEST.json): a run
//! that aborts the process, one that hangs, one that asks for an oversized allocation and one
//! that violates a trivial oracle only under a particular fault + schedule combination (to check
//! minimisation and replay). `./check selftest machinery` runs them and checks what is reported.

use simcore::{driver::Scenario, fail, tape, Outcome};

pub fn scenarios() -> Vec<Scenario> {
    let mut v = vec![
        Scenario::new("SELF", "abort", "run 5 aborts the process", run_abort, 12, 12),
        Scenario::new("SELF", "hang", "run 3 never returns", run_hang, 8, 8),
        Scenario::new("SELF", "alloc", "run 4 requests 3 GiB in one allocation", run_alloc, 8, 8),
        Scenario::new("SELF", "needle", "violates its oracle only when fault a=3, fault b=5 and schedule c=2 coincide among 30 irrelevant draws", run_needle, 20_000, 20_000),
    ];
    v.push(Scenario::new(
        "SELF",
        "hang-twice",
        "runs 3 and 150 of 200 never return: the worker killed by the watchdog is replaced in the same slot, and the late end-of-pipe report of the killed worker must not be taken for the replacement's",
        run_hang_twice,
        200,
        200,
    ));
    v[1].watchdog_s = 3;
    v[4].watchdog_s = 3;
    v
}

fn run_hang_twice() -> Outcome {
    let i = tape::indexed("self.case", 1 << 20);
    if i == 3 || i == 150 {
        loop {
            std::hint::spin_loop();
        }
    }
    Ok(())
}

fn run_abort() -> Outcome {
    if tape::indexed("self.case", 1 << 20) == 5 {
        std::process::abort();
    }
    Ok(())
}

fn run_hang() -> Outcome {
    if tape::indexed("self.case", 1 << 20) == 3 {
        loop {
            std::hint::spin_loop();
        }
    }
    Ok(())
}

fn run_alloc() -> Outcome {
    if tape::indexed("self.case", 1 << 20) == 4 {
        let v: Vec<u8> = Vec::with_capacity(3usize << 30);
        std::hint::black_box(&v);
    }
    Ok(())
}

fn run_needle() -> Outcome {
    let mut noise = 0u64;
    for _ in 0..10 {
        noise += tape::w("needle.noise", 1000);
    }
    let a = tape::f("needle.a", 8);
    for _ in 0..10 {
        noise += tape::s("needle.noise", 1000);
    }
    let b = tape::f("needle.b", 8);
    let c = tape::s("needle.c", 4);
    for _ in 0..10 {
        noise += tape::f("needle.noise", 1000);
    }
    std::hint::black_box(noise);
    if a == 3 && b == 5 && c == 2 {
        fail!("needle-found", "selftest", "a={a} b={b} c={c}");
    }
    Ok(())
}
