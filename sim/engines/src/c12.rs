//! C12 - FFT evaluation / interpolation / degree inference against naive evaluation, in the serial
//! build and under the simulated scheduler.

use math::{fft, FieldElement, StarkField};
use simcore::{
    driver::Scenario,
    fail, guard, stats,
    tape::{self, Stream},
    Outcome,
};

use crate::{
    fields::{rand_elem, rand_nonzero, rand_vec, show, FIELD_NAMES},
    sched, with_element_type,
};

pub fn scenarios() -> Vec<Scenario> {
    vec![Scenario::new(
        "C12",
        "fft-vs-naive",
        "evaluate_poly(_with_offset) / interpolate_poly(_with_offset) / infer_degree / serial_fft / twiddles for sizes 2..2^16, blowups 1..128, random non-zero offsets, base and extension coefficients; reference = Horner evaluation at offset*g^i (complete for n <= 512, 48 tape-chosen points above)",
        run_fft,
        5_000,
        120_000,
    )]
}

fn horner<E: FieldElement>(p: &[E], x: E) -> E {
    p.iter().rev().fold(E::ZERO, |acc, &c| acc * x + c)
}

fn run_fft() -> Outcome {
    let threads = sched::begin(false);
    let fidx = tape::w("field", 8) as usize;
    let logn = match tape::w("size.class", 8) {
        0 => 1 + tape::w("size.tiny", 4),      // 2..16
        1 | 2 => 5 + tape::w("size.small", 5), // 32..512
        3 | 4 => 10 + tape::w("size.thr", 2),  // 1024, 2048: concurrency threshold
        5 => 8 + tape::w("size.switch", 3),    // 256..1024: recursion switch
        6 => 12 + tape::w("size.large", 3),    // 4096..16384
        _ => 1 + tape::w("size.any", 14),
    } as u32;
    let logn = if tape::w("size.huge", 40) == 0 { 15 + tape::w("size.huge2", 2) as u32 } else { logn };
    let n = 1usize << logn;
    let op = tape::w("op", 7);
    stats::sig((fidx as u64) << 8 | (logn as u64));
    stats::sig(op);
    let r = with_element_type!(fidx, E => fft_case::<<E as FieldElement>::BaseField, E>(op, n, threads, FIELD_NAMES[fidx]));
    if n >= 1024 {
        stats::probe("probe.size_at_or_above_concurrency_threshold");
    }
    if sched::regions() > 0 {
        stats::probe("probe.ran_under_simulated_scheduler");
    }
    stats::nontrivial();
    r
}

/// picks the indices at which the reference is evaluated: all of them for small domains
fn check_points(domain: usize, n: usize) -> Vec<usize> {
    if n <= 512 && domain <= 4096 {
        (0..domain).collect()
    } else {
        let mut v: Vec<usize> = vec![0, 1, domain - 1, domain / 2, n.min(domain - 1), n - 1];
        for _ in 0..42 {
            v.push(tape::w("check.point", domain as u64) as usize);
        }
        v
    }
}

fn fft_case<B, E>(op: u64, n: usize, threads: usize, fname: &str) -> Outcome
where
    B: StarkField,
    E: FieldElement<BaseField = B>,
{
    let mut rng = tape::fork(Stream::Workload, "coefficients");
    // coefficient vector, sometimes degree-deficient
    let mut p: Vec<E> = rand_vec(&mut rng, n);
    let true_degree = match tape::w("degree.class", 5) {
        0 => n - 1,
        1 => 0,
        2 => n / 2,
        3 => tape::w("degree.any", n as u64) as usize,
        _ => n - 1,
    };
    for c in p.iter_mut().skip(true_degree + 1) {
        *c = E::ZERO;
    }
    if p[true_degree] == E::ZERO {
        p[true_degree] = E::ONE;
    }
    let blowup = 1usize << tape::w("blowup", 8); // 1..128
    let blowup = if n * blowup > (1 << 18) { ((1usize << 18) / n).max(1) } else { blowup };
    let offset: B = match tape::w("offset.class", 4) {
        0 => B::GENERATOR,
        1 => B::ONE,
        _ => rand_nonzero(&mut rng),
    };
    stats::sample(|| format!("{{\"op\":{op},\"field\":\"{fname}\",\"n\":{n},\"blowup\":{blowup},\"degree\":{true_degree},\"threads\":{threads},\"offset\":\"{}\"}}", show(&offset)));
    let g_n = B::get_root_of_unity(n.ilog2());
    let twiddles = match guard(|| fft::get_twiddles::<B>(n)) {
        Ok(t) => t,
        Err(pn) => fail!("panic", pn.site(), "get_twiddles({n}): {}", pn.msg),
    };
    let inv_twiddles = match guard(|| fft::get_inv_twiddles::<B>(n)) {
        Ok(t) => t,
        Err(pn) => fail!("panic", pn.site(), "get_inv_twiddles({n}): {}", pn.msg),
    };
    macro_rules! call {
        ($what:expr, $e:expr) => {
            match guard(|| $e) {
                Ok(v) => v,
                Err(pn) => fail!("panic", pn.site(), "{} n={n} blowup={blowup} threads={threads} {fname}: {}", $what, pn.msg),
            }
        };
    }
    match op {
        0 => {
            // evaluate_poly: values at g^i in natural order
            let mut v = p.clone();
            call!("evaluate_poly", fft::evaluate_poly(&mut v, &twiddles));
            for i in check_points(n, n) {
                let x = E::from(g_n.exp_vartime((i as u64).into()));
                let want = horner(&p, x);
                if v[i] != want {
                    fail!("differs-from-naive-evaluation", "evaluate_poly", "{fname} n={n} threads={threads} index {i}: want {} got {}", show(&want), show(&v[i]));
                }
            }
        },
        1 | 2 => {
            let domain = n * blowup;
            let g_d = B::get_root_of_unity(domain.ilog2());
            let v = call!("evaluate_poly_with_offset", fft::evaluate_poly_with_offset(&p, &twiddles, offset, blowup));
            if v.len() != domain {
                fail!("length-differs", "evaluate_poly_with_offset", "{} values for domain {domain}", v.len());
            }
            for i in check_points(domain, n) {
                let x = E::from(offset * g_d.exp_vartime((i as u64).into()));
                let want = horner(&p, x);
                if v[i] != want {
                    fail!("differs-from-naive-evaluation", "evaluate_poly_with_offset", "{fname} n={n} blowup={blowup} threads={threads} index {i}: want {} got {}", show(&want), show(&v[i]));
                }
            }
            if blowup >= 2 {
                stats::probe("probe.offset_evaluation_with_blowup");
            }
        },
        3 => {
            // interpolation inverts evaluation (values built by the reference, not by the FFT)
            let small = n <= 256;
            let mut evals: Vec<E> = if small {
                (0..n).map(|i| horner(&p, E::from(g_n.exp_vartime((i as u64).into())))).collect()
            } else {
                let mut v = p.clone();
                call!("evaluate_poly", fft::evaluate_poly(&mut v, &twiddles));
                v
            };
            call!("interpolate_poly", fft::interpolate_poly(&mut evals, &inv_twiddles));
            if evals != p {
                let i = evals.iter().zip(p.iter()).position(|(a, b)| a != b).unwrap();
                fail!("interpolation-does-not-invert-evaluation", "interpolate_poly", "{fname} n={n} threads={threads} coefficient {i}: want {} got {}", show(&p[i]), show(&evals[i]));
            }
        },
        4 => {
            let small = n <= 256;
            let mut evals: Vec<E> = if small {
                (0..n).map(|i| horner(&p, E::from(offset * g_n.exp_vartime((i as u64).into())))).collect()
            } else {
                call!("evaluate_poly_with_offset", fft::evaluate_poly_with_offset(&p, &twiddles, offset, 1))
            };
            call!("interpolate_poly_with_offset", fft::interpolate_poly_with_offset(&mut evals, &inv_twiddles, offset));
            if evals != p {
                let i = evals.iter().zip(p.iter()).position(|(a, b)| a != b).unwrap();
                fail!("interpolation-does-not-invert-evaluation", "interpolate_poly_with_offset", "{fname} n={n} threads={threads} coefficient {i}: want {} got {}", show(&p[i]), show(&evals[i]));
            }
        },
        5 => {
            // degree inference over an extended domain
            let domain = n * blowup;
            let evals = call!("evaluate_poly_with_offset", fft::evaluate_poly_with_offset(&p, &twiddles, offset, blowup));
            let d = call!("infer_degree", fft::infer_degree(&evals, offset));
            if d != true_degree {
                fail!("inferred-degree-differs", "infer_degree", "{fname} n={n} domain={domain} threads={threads}: true degree {true_degree}, inferred {d}");
            }
            if true_degree < n - 1 {
                stats::probe("probe.degree_deficient_polynomial");
            }
        },
        _ => {
            // serial_fft (always single-threaded) agrees with evaluate_poly (multi-threaded above the
            // threshold): the thread-independence clause, compared directly
            let mut a = p.clone();
            let mut b = p.clone();
            call!("serial_fft", fft::serial_fft(&mut a, &twiddles));
            call!("evaluate_poly", fft::evaluate_poly(&mut b, &twiddles));
            if a != b {
                let i = a.iter().zip(b.iter()).position(|(x, y)| x != y).unwrap();
                fail!("concurrent-differs-from-serial", "evaluate_poly", "{fname} n={n} threads={threads} index {i}");
            }
        },
    }
    let _ = rand_elem::<E>;
    Ok(())
}
