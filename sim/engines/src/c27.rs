//! C27 - the streaming reader (`ReadAdapter` over a simulated stream) against the in-memory
//! `SliceReader` as the reference model, operation by operation.

use simcore::{
    driver::Scenario,
    fail, guard, stats,
    tape::{self, Stream},
    Outcome,
};
use utils::{ByteReader, DeserializationError, ReadAdapter, SliceReader};

use crate::streams::{hex, SimReader};

pub fn scenarios() -> Vec<Scenario> {
    vec![
        Scenario::new(
            "C27",
            "model",
            "ReadAdapter over a tape-chunked stream vs SliceReader, random operation sequences, no stream faults",
            run_model,
            400_000,
            6_000_000,
        ),
        Scenario::new(
            "C27",
            "model-faults",
            "same, with EINTR / I/O errors / premature EOF injected; relaxed oracle: any Ok value equals the model's, never a panic",
            run_faults,
            100_000,
            1_500_000,
        ),
        Scenario::new(
            "C27",
            "exhaustive-small",
            "every content length <= 6, every chunking of it, every operation sequence of length <= 3 over a reduced alphabet (enumerated from the run index, not sampled)",
            run_exhaustive,
            EXH_TOTAL,
            EXH_TOTAL,
        ),
        Scenario::new(
            "C27",
            "exhaustive-medium",
            "thorough tier only: every content length 7..=9, every chunking, every operation sequence of length <= 3 over the same alphabet (enumerated)",
            run_exhaustive_medium,
            0,
            EXH_MEDIUM_TOTAL,
        ),
    ]
}

#[derive(Clone, Copy, Debug)]
enum Op {
    ReadU8,
    PeekU8,
    ReadBool,
    ReadU16,
    ReadU32,
    ReadU64,
    ReadU128,
    ReadUsize,
    ReadArray(usize),
    ReadSlice(usize),
    ReadVec(usize),
    HasMore,
    CheckEor(usize),
    ReadManyU32(usize),
}

const ARRAY_SIZES: [usize; 14] = [0, 1, 3, 5, 7, 12, 24, 32, 33, 64, 255, 256, 257, 300];

fn read_array_dyn<R: ByteReader>(r: &mut R, n: usize) -> Result<Vec<u8>, DeserializationError> {
    macro_rules! arm {
        ($($n:literal),*) => {
            match n {
                $($n => r.read_array::<$n>().map(|a| a.to_vec()),)*
                _ => unreachable!("array size not in table"),
            }
        };
    }
    arm!(0, 1, 2, 3, 4, 5, 7, 12, 24, 32, 33, 64, 255, 256, 257, 300)
}

/// applies one operation; the result is rendered to a comparable string
fn apply<R: ByteReader>(r: &mut R, op: Op) -> Result<String, DeserializationError> {
    Ok(match op {
        Op::ReadU8 => format!("{}", r.read_u8()?),
        Op::PeekU8 => format!("{}", r.peek_u8()?),
        Op::ReadBool => format!("{}", r.read_bool()?),
        Op::ReadU16 => format!("{}", r.read_u16()?),
        Op::ReadU32 => format!("{}", r.read_u32()?),
        Op::ReadU64 => format!("{}", r.read_u64()?),
        Op::ReadU128 => format!("{}", r.read_u128()?),
        Op::ReadUsize => format!("{}", r.read_usize()?),
        Op::ReadArray(n) => hex_full(&read_array_dyn(r, n)?),
        Op::ReadSlice(n) => hex_full(r.read_slice(n)?),
        Op::ReadVec(n) => hex_full(&r.read_vec(n)?),
        Op::HasMore => format!("{}", r.has_more_bytes()),
        Op::CheckEor(n) => match r.check_eor(n) {
            Ok(()) => "ok".to_string(),
            Err(_) => "eor".to_string(),
        },
        Op::ReadManyU32(n) => format!("{:?}", r.read_many::<u32>(n)?),
    })
}

fn hex_full(b: &[u8]) -> String {
    let mut s = String::with_capacity(b.len() * 2);
    for x in b {
        s.push_str(&format!("{x:02x}"));
    }
    s
}

fn draw_len(label: &'static str, content_len: usize) -> usize {
    match tape::w(label, 8) {
        0 => 0,
        1 => 1,
        2 => tape::w("len.small", 17) as usize,
        3 => tape::w("len.mid", 300) as usize,
        4 => [254, 255, 256, 257, 258, 511, 512, 513][tape::w("len.boundary", 8) as usize],
        5 => content_len,
        6 => content_len + 1,
        _ => tape::w("len.any", 1300) as usize,
    }
}

fn draw_op(content_len: usize) -> Op {
    match tape::w("op", 16) {
        0 => Op::ReadU8,
        1 => Op::PeekU8,
        2 => Op::ReadBool,
        3 => Op::ReadU16,
        4 => Op::ReadU32,
        5 => Op::ReadU64,
        6 => Op::ReadU128,
        7 => Op::ReadUsize,
        8 | 9 => Op::ReadArray(ARRAY_SIZES[tape::w("op.array", ARRAY_SIZES.len() as u64) as usize]),
        10 | 11 => Op::ReadSlice(draw_len("op.slice", content_len)),
        12 => Op::ReadVec(draw_len("op.vec", content_len)),
        13 => Op::HasMore,
        14 => Op::CheckEor(draw_len("op.eor", content_len)),
        _ => Op::ReadManyU32(tape::w("op.many", 40) as usize),
    }
}

fn draw_content() -> Vec<u8> {
    let len = match tape::w("content.class", 8) {
        0 => tape::w("content.tiny", 9) as usize,
        1 => tape::w("content.small", 40) as usize,
        2 => [254, 255, 256, 257, 258, 510, 511, 512, 513, 514, 767, 768, 769, 1023, 1024, 1025]
            [tape::w("content.boundary", 16) as usize],
        3 | 4 => 200 + tape::w("content.mid", 500) as usize,
        _ => tape::w("content.any", 1201) as usize,
    };
    let mut rng = tape::fork(Stream::Workload, "content.bytes");
    let style = tape::w("content.style", 4);
    (0..len)
        .map(|i| match style {
            // position-dependent bytes make misplaced data visible
            0 => (i as u8).wrapping_mul(31).wrapping_add(7),
            // many small size-value prefixes and booleans
            1 => [0u8, 1, 2, 3, 4, 8, 16, 0x80, 0xff][rng.below(9) as usize],
            _ => rng.next_u64() as u8,
        })
        .collect()
}

fn run_model() -> Outcome {
    run_inner(false)
}

fn run_faults() -> Outcome {
    run_inner(true)
}

fn run_inner(faults: bool) -> Outcome {
    let content = draw_content();
    let nops = 1 + tape::w("nops", 40) as usize;
    let ops: Vec<Op> = (0..nops).map(|_| draw_op(content.len())).collect();
    stats::sample(|| format!("{{\"content_len\":{},\"ops\":\"{:?}\"}}", content.len(), ops));
    let mut sim = SimReader::new(content.clone(), faults);
    let r = check_sequence(&content, &ops, &mut sim, faults);
    stats::count("steps.ops", ops.len() as u64);
    if sim.calls > 1 {
        stats::nontrivial();
    }
    stats::sig(content.len() as u64);
    for op in ops.iter().take(6) {
        stats::sig_str(&format!("{op:?}"));
    }
    r
}

/// Runs `ops` against both readers. With `faults` the oracle is relaxed: the adapter may fail
/// where the model succeeds (an injected error or a lost tail), but a value it returns must be
/// the model's, and it must never panic.
fn check_sequence(content: &[u8], ops: &[Op], sim: &mut SimReader, faults: bool) -> Outcome {
    let mut model = SliceReader::new(content);
    let res = guard(|| -> Outcome {
        let mut adapter = ReadAdapter::new(sim);
        for (i, &op) in ops.iter().enumerate() {
            let want = apply(&mut model, op);
            let got = apply(&mut adapter, op);
            stats::event(|| format!("op {i} {op:?}: model {} adapter {}", short(&want), short(&got)));
            match (&want, &got) {
                (Ok(w), Ok(g)) => {
                    let same = match op {
                        // the end-of-input check may be optimistic, never pessimistic
                        // under faults an injected error or a lost tail legitimately shows up here
                        Op::CheckEor(_) if faults => true,
                        Op::CheckEor(_) => !(g == "eor" && w == "ok"),
                        Op::HasMore if faults => !(g == "true" && w == "false"),
                        _ => w == g,
                    };
                    if !same {
                        let oracle = match op {
                            Op::CheckEor(_) => "eor-reports-missing-data-that-is-available",
                            Op::HasMore => "has-more-bytes-differs",
                            _ => "value-differs-from-model",
                        };
                        fail!(oracle, opname(op), "op {i} {op:?} on {} content bytes: model {} adapter {}", content.len(), short(&want), short(&got));
                    }
                    if faults && matches!(op, Op::CheckEor(_) | Op::HasMore) && w != g {
                        // after a lost tail the two readers are no longer comparable
                        return Ok(());
                    }
                },
                (Err(w), Err(g)) => {
                    if !faults && w != g {
                        fail!("error-differs-from-model", opname(op), "op {i} {op:?}: model {w:?} adapter {g:?}");
                    }
                    // An end-of-input error consumes nothing on the in-memory reader (it checks
                    // before it reads), and the statement speaks of *every* sequence: on a
                    // fault-free stream the sequence goes on and the adapter must still agree -
                    // the bytes it has buffered are still there. After any other error, or under
                    // injected faults, the state is unspecified: stop.
                    stats::probe("probe.sequence_ended_in_error");
                    if !faults && matches!(w, utils::DeserializationError::UnexpectedEOF) && matches!(g, utils::DeserializationError::UnexpectedEOF) {
                        stats::probe("probe.sequence_continued_after_end_of_input_error");
                        continue;
                    }
                    return Ok(());
                },
                (Ok(w), Err(g)) => {
                    if faults {
                        stats::probe("probe.fault_surfaced_as_error");
                        return Ok(());
                    }
                    fail!("error-where-model-succeeds", opname(op), "op {i} {op:?} on {} content bytes: model Ok({}) adapter Err({g:?})", content.len(), shorts(w));
                },
                (Err(w), Ok(g)) => {
                    fail!("value-where-model-fails", opname(op), "op {i} {op:?}: model Err({w:?}) adapter Ok({})", shorts(g));
                },
            }
        }
        Ok(())
    });
    match res {
        Ok(r) => r,
        Err(p) => fail!("panic", p.site(), "{}:{}: {} (content {} bytes: {})", p.file, p.line, p.msg, content.len(), hex(content)),
    }
}

fn opname(op: Op) -> &'static str {
    match op {
        Op::ReadU8 => "read_u8",
        Op::PeekU8 => "peek_u8",
        Op::ReadBool => "read_bool",
        Op::ReadU16 => "read_u16",
        Op::ReadU32 => "read_u32",
        Op::ReadU64 => "read_u64",
        Op::ReadU128 => "read_u128",
        Op::ReadUsize => "read_usize",
        Op::ReadArray(_) => "read_array",
        Op::ReadSlice(_) => "read_slice",
        Op::ReadVec(_) => "read_vec",
        Op::HasMore => "has_more_bytes",
        Op::CheckEor(_) => "check_eor",
        Op::ReadManyU32(_) => "read_many",
    }
}

fn shorts(s: &str) -> String {
    if s.len() > 48 {
        format!("{}..({} chars)", &s[..48], s.len())
    } else {
        s.to_string()
    }
}

fn short(r: &Result<String, DeserializationError>) -> String {
    match r {
        Ok(s) => format!("Ok({})", shorts(s)),
        Err(e) => format!("Err({e:?})"),
    }
}

// EXHAUSTIVE SMALL BOUND
// ================================================================================================
// Every content length 0..=6, every composition of the length into read chunks, every sequence of
// 1..=3 operations over a reduced alphabet. The case is decoded from the run index (carried by the
// workload stream as a single draw with bound EXH_TOTAL so that replay works the same way).

const EXH_OPS: [Op; 10] = [
    Op::ReadU8,
    Op::PeekU8,
    Op::ReadU16,
    Op::ReadU32,
    Op::ReadUsize,
    Op::ReadArray(3),
    Op::ReadSlice(2),
    Op::ReadSlice(5),
    Op::HasMore,
    Op::CheckEor(3),
];

// lengths 0..=6; compositions of n: 2^(n-1) (1 for n = 0); op sequences: 10 + 100 + 1000
const EXH_SEQS: u64 = 10 + 100 + 1000;
const EXH_CHUNKINGS: u64 = 1 + 1 + 2 + 4 + 8 + 16 + 32;
pub const EXH_TOTAL: u64 = EXH_CHUNKINGS * EXH_SEQS;

/// a reader with a fixed chunk plan
struct PlanReader {
    data: Vec<u8>,
    pos: usize,
    plan: Vec<usize>,
    next: usize,
}
impl std::io::Read for PlanReader {
    fn read(&mut self, buf: &mut [u8]) -> std::io::Result<usize> {
        if buf.is_empty() || self.pos >= self.data.len() {
            return Ok(0);
        }
        let n = self.plan.get(self.next).copied().unwrap_or(self.data.len() - self.pos);
        self.next += 1;
        let n = n.min(buf.len()).min(self.data.len() - self.pos).max(1);
        buf[..n].copy_from_slice(&self.data[self.pos..self.pos + n]);
        self.pos += n;
        Ok(n)
    }
}

const EXH_MEDIUM_CHUNKINGS: u64 = 64 + 128 + 256;
pub const EXH_MEDIUM_TOTAL: u64 = EXH_MEDIUM_CHUNKINGS * EXH_SEQS;

fn run_exhaustive() -> Outcome {
    // the case number is the only decision of the run; the driver hands out run indices in order,
    // and `exh_case` maps the i-th run to the i-th case through this draw's value in replay.
    let case = crate::exh_index(EXH_TOTAL);
    exhaustive_case(case, 0)
}

fn run_exhaustive_medium() -> Outcome {
    let case = crate::exh_index(EXH_MEDIUM_TOTAL);
    exhaustive_case(case, 7)
}

fn exhaustive_case(case: u64, first_len: usize) -> Outcome {
    let (mut c, seq_idx) = (case / EXH_SEQS, case % EXH_SEQS);
    // decode length and composition
    let mut len = first_len;
    loop {
        let comps = if len == 0 { 1 } else { 1u64 << (len - 1) };
        if c < comps {
            break;
        }
        c -= comps;
        len += 1;
    }
    // composition `c` of `len`: bit i set = cut after byte i
    let mut plan = Vec::new();
    let mut run = 0usize;
    for i in 0..len {
        run += 1;
        let cut = i + 1 == len || (c >> i) & 1 == 1;
        if cut {
            plan.push(run);
            run = 0;
        }
    }
    // decode op sequence
    let ops: Vec<Op> = if seq_idx < 10 {
        vec![EXH_OPS[seq_idx as usize]]
    } else if seq_idx < 110 {
        let s = seq_idx - 10;
        vec![EXH_OPS[(s / 10) as usize], EXH_OPS[(s % 10) as usize]]
    } else {
        let s = seq_idx - 110;
        vec![EXH_OPS[(s / 100) as usize], EXH_OPS[((s / 10) % 10) as usize], EXH_OPS[(s % 10) as usize]]
    };
    // content: bytes that make read_usize take lengths 1, 2, 3 depending on position
    let content: Vec<u8> = (0..len).map(|i| [0x03u8, 0x02, 0x04, 0x11, 0x00, 0x7f][i % 6]).collect();
    stats::sample(|| format!("{{\"content\":\"{}\",\"chunks\":{:?},\"ops\":\"{:?}\"}}", hex(&content), plan, ops));
    stats::sig(case);
    stats::nontrivial();
    let mut model = SliceReader::new(&content);
    let mut pr = PlanReader { data: content.clone(), pos: 0, plan: plan.clone(), next: 0 };
    let res = guard(|| -> Outcome {
        let mut adapter = ReadAdapter::new(&mut pr);
        for (i, &op) in ops.iter().enumerate() {
            let want = apply(&mut model, op);
            let got = apply(&mut adapter, op);
            let ok = match (&want, &got) {
                (Ok(w), Ok(g)) => match op {
                    Op::CheckEor(_) => !(g == "eor" && w == "ok"),
                    _ => w == g,
                },
                (Err(w), Err(g)) => {
                    if w != g {
                        false
                    } else {
                        return Ok(());
                    }
                },
                _ => false,
            };
            if !ok {
                fail!("value-differs-from-model", opname(op), "exhaustive case {case}: content {} chunks {:?} op {i} {op:?}: model {} adapter {}", hex(&content), plan, short(&want), short(&got));
            }
        }
        Ok(())
    });
    match res {
        Ok(r) => r,
        Err(p) => fail!("panic", p.site(), "exhaustive case {case}: {}:{}: {}", p.file, p.line, p.msg),
    }
}
