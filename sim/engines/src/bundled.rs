//! The bundled examples (fib2, fib8, mulfib2, mulfib8, fib_small, vdf, vdf-exempt, rescue,
//! rescue_raps, merkle, lamport aggregate / threshold) driven through their public constructors
//! with tape-drawn options: C01 (honest proofs verify, wrong inputs are rejected) and C06 (proof
//! bytes independent of the build and the schedule).

use examples::{Example, ExampleOptions, ExampleType};
use simcore::{
    driver::Scenario,
    fail, guard,
    rng::{fnv, mix},
    stats, tape, Outcome,
};
use structopt::StructOpt;
use utils::Serializable;

use crate::sched;

pub fn scenarios() -> Vec<Scenario> {
    let mut v = vec![
        Scenario::new(
            "C01",
            "bundled-examples",
            "every bundled example through its public constructor with tape-drawn size, queries, blowup, grinding, extension, folding and hasher: the honest proof verifies (and the example's wrong-input verification fails)",
            run_c01_examples,
            300,
            6_000,
        ),
        Scenario::new(
            "C06",
            "bundled-examples",
            "the deterministic bundled examples (fib2, fib8, mulfib2, mulfib8, fib_small, vdf, vdf-exempt, rescue) proved by the serial build (reference digests) and by the concurrent build on the simulated scheduler: context, commitments, OOD frame equal; whole proof when the nonce is equal",
            run_c06_examples,
            200,
            3_000,
        ),
    ];
    for s in v.iter_mut() {
        s.watchdog_s = 180;
    }
    v
}

#[derive(Clone, Debug)]
struct ExampleCase {
    args: Vec<String>,
    kind: usize,
}

const KINDS: [&str; 12] = ["fib", "fib8", "mulfib", "mulfib8", "fib-small", "vdf", "vdf-exempt", "rescue", "rescue-raps", "merkle", "lamport-a", "lamport-t"];

fn draw_case() -> ExampleCase {
    let kind = tape::w("ex.kind", KINDS.len() as u64) as usize;
    // size parameter of each example, small enough to stay cheap
    let n = match kind {
        0 | 2 => 16usize << tape::w("ex.size", 8),          // fib / mulfib: sequence length 16..2048 (2 terms per step)
        1 | 3 => 64usize << tape::w("ex.size", 6),          // fib8 / mulfib8: 8 terms per step
        4 => 16usize << tape::w("ex.size", 8),              // fib small (f64)
        5 => 8usize << tape::w("ex.size", 9),               // vdf steps
        6 => (8usize << tape::w("ex.size", 9)) - 1,         // vdf exempt: 2^k - 1 steps
        7 | 8 => 2usize << tape::w("ex.size", 6),           // rescue chain length 2..64
        9 => 1 + 2 * tape::w("ex.size", 4) as usize,        // merkle tree depth 1,3,5,7 (depth + 1 power of two)
        10 => 1usize << tape::w("ex.size", 2),              // lamport aggregate: 1, 2 signatures
        _ => 3,                                             // lamport threshold: 3 signers
    };
    let f64_based = matches!(kind, 4);
    // minimum blowup of each example AIR
    let min_b: u32 = match kind {
        0..=4 => 1, // 2
        5 | 6 => 1, // vdf: degree 3 -> 4? (to_proof_options default 2); take the example's own default when small
        7 | 8 => 2,
        9 => 3,
        _ => 3,
    };
    let log_b = min_b + tape::w("ex.blowup", 3) as u32 + if matches!(kind, 5 | 6) { 1 } else { 0 };
    let queries = match tape::w("ex.queries.class", 4) {
        0 => 1,
        1 => 255,
        _ => 1 + tape::w("ex.queries", 60),
    };
    let ext = if f64_based { 1 + tape::w("ex.ext", 3) } else { 1 + tape::w("ex.ext", 2) };
    let folding = [2u64, 4, 8, 16][tape::w("ex.folding", 4) as usize];
    let grinding = tape::w("ex.grinding", 9);
    let hash = match (f64_based, tape::w("ex.hash", 5)) {
        (_, 0) => "blake3_256",
        (_, 1) => "blake3_192",
        (_, 2) => "sha3_256",
        (true, 3) => "rp64_256",
        (true, _) => "rp_jive64_256",
        (false, _) => "blake3_256",
    };
    let mut args: Vec<String> = vec!["winterfell".into()];
    for (k, v) in [("-h", hash.to_string()), ("-q", queries.to_string()), ("-b", (1u64 << log_b).to_string()), ("-g", grinding.to_string()), ("-e", ext.to_string()), ("-f", folding.to_string())] {
        args.push(k.into());
        args.push(v);
    }
    args.push(KINDS[kind].into());
    args.push("-n".into());
    args.push(n.to_string());
    ExampleCase { args, kind }
}

fn build(case: &ExampleCase) -> Option<Box<dyn Example>> {
    let opts = ExampleOptions::from_iter_safe(case.args.iter()).ok()?;
    let r = guard(|| match opts.example {
        ExampleType::Fib { sequence_length } => examples::fibonacci::fib2::get_example(&opts, sequence_length),
        ExampleType::Fib8 { sequence_length } => examples::fibonacci::fib8::get_example(&opts, sequence_length),
        ExampleType::Mulfib { sequence_length } => examples::fibonacci::mulfib2::get_example(&opts, sequence_length),
        ExampleType::Mulfib8 { sequence_length } => examples::fibonacci::mulfib8::get_example(&opts, sequence_length),
        ExampleType::FibSmall { sequence_length } => examples::fibonacci::fib_small::get_example(&opts, sequence_length),
        ExampleType::Vdf { num_steps } => examples::vdf::regular::get_example(&opts, num_steps),
        ExampleType::VdfExempt { num_steps } => examples::vdf::exempt::get_example(&opts, num_steps),
        ExampleType::Rescue { chain_length } => examples::rescue::get_example(&opts, chain_length),
        ExampleType::RescueRaps { chain_length } => examples::rescue_raps::get_example(&opts, chain_length),
        ExampleType::Merkle { tree_depth } => examples::merkle::get_example(&opts, tree_depth),
        ExampleType::LamportA { num_signatures } => examples::lamport::aggregate::get_example(&opts, num_signatures),
        ExampleType::LamportT { num_signers } => examples::lamport::threshold::get_example(&opts, num_signers),
    });
    match r {
        Ok(Ok(e)) => Some(e),
        // an option combination the example itself refuses (unsupported hasher, size asserts)
        _ => None,
    }
}

/// options for which no honest proof exists on the pinned tree (see DESIGN.md 9.3)
fn contested(case: &ExampleCase, trace_len_hint: usize) -> bool {
    let folding: usize = case.args[12].parse().unwrap_or(8);
    let mut d = trace_len_hint;
    while d > 32 {
        if d % folding != 0 {
            return true;
        }
        d /= folding;
    }
    false
}

fn run_c01_examples() -> Outcome {
    let threads = sched::begin(true);
    let case = draw_case();
    stats::sig(fnv(case.args.join(" ").as_bytes()));
    stats::sample(|| format!("{{\"example\":\"{}\",\"threads\":{threads}}}", case.args[1..].join(" ")));
    // rescue-raps, merkle and the lamport examples draw their inputs from the thread-local OS-seeded
    // generator every time they are constructed: a run on them is not a function of the seed (the
    // determinism self-test caught the leak through the nonce-search counters), so a failure there
    // could not be replayed. They are left out; GenAir covers auxiliary segments and sequence
    // assertions with seeded inputs.
    if case.kind >= 8 {
        stats::count("steps.randomised_example_skipped", 1);
        return Ok(());
    }
    stats::count(&format!("example.{}", KINDS[case.kind]), 1);
    let Some(ex) = build(&case) else {
        stats::count("steps.example_refused_options", 1);
        return Ok(());
    };
    stats::nontrivial();
    let ctx = || format!("{} threads={threads}", case.args[1..].join(" "));
    let proof = match guard(|| ex.prove()) {
        Ok(p) => p,
        Err(p) => {
            if contested(&case, 0) || p.msg.contains("FRI layers have not been built") || p.msg.contains("blowup factor too small") || p.msg.contains("number of values must be smaller than domain size") {
                // option combinations outside the example's own preconditions (blowup below the
                // AIR's minimum, more queries than LDE points) or the known FRI truncation finding
                stats::count("steps.example_precondition_or_known_finding", 1);
                return Ok(());
            }
            fail!("prover-panic-on-satisfying-instance", p.site(), "{} :: {}", p.msg, ctx());
        },
    };
    let n = proof.trace_info().length();
    if contested(&case, n) {
        stats::count("steps.example_precondition_or_known_finding", 1);
        return Ok(());
    }
    let bytes = proof.to_bytes();
    let decoded = match guard(|| air::proof::Proof::from_bytes(&bytes)) {
        Ok(Ok(p)) => p,
        other => fail!("honest-proof-does-not-decode", KINDS[case.kind], "{:?} :: {}", other.map(|r| r.map(|_| ()).map_err(|e| e.to_string())).map_err(|p| p.msg), ctx()),
    };
    match guard(|| ex.verify(decoded)) {
        Ok(Ok(())) => {},
        Ok(Err(e)) => fail!("verifier-rejects-honest-proof", KINDS[case.kind], "{e} :: {}", ctx()),
        Err(p) => fail!("verifier-panic-on-honest-proof", p.site(), "{} :: {}", p.msg, ctx()),
    }
    // the example's own wrong-input check (C02's statement, on real AIRs)
    match guard(|| ex.verify_with_wrong_inputs(proof)) {
        Ok(Ok(())) => fail!("accepts-wrong-public-inputs", KINDS[case.kind], "{}", ctx()),
        _ => {},
    }
    if sched::regions() > 0 {
        stats::probe("probe.prover_ran_under_simulated_scheduler");
    }
    Ok(())
}

// C06 on the examples
// ================================================================================================

thread_local! {
    static REFERENCE: std::cell::RefCell<Option<std::collections::BTreeMap<u64, [u64; 5]>>> = const { std::cell::RefCell::new(None) };
}

#[allow(dead_code)]
fn reference(key: u64) -> Option<[u64; 5]> {
    REFERENCE.with(|r| {
        let mut r = r.borrow_mut();
        if r.is_none() {
            let path = format!("{}/target/digests/C06-bundled-examples-serial.txt", simcore::driver::verif_dir());
            let text = std::fs::read_to_string(&path).unwrap_or_default();
            let mut map = std::collections::BTreeMap::new();
            for line in text.lines() {
                let f: Vec<&str> = line.split_whitespace().collect();
                if f.len() == 7 {
                    let h = |s: &str| u64::from_str_radix(s, 16).unwrap_or(0);
                    map.insert(h(f[1]), [h(f[2]), h(f[3]), h(f[4]), h(f[5]), h(f[6])]);
                }
            }
            if map.is_empty() {
                simcore::harness_error("no serial reference digests for C06/bundled-examples: run `./check C06 <tier>`");
            }
            *r = Some(map);
        }
        r.as_ref().unwrap().get(&key).copied()
    })
}

fn run_c06_examples() -> Outcome {
    let case = draw_case();
    let key = mix(&[fnv(case.args.join(" ").as_bytes()), 0xe6]);
    stats::sig(key);
    stats::nontrivial();
    stats::sample(|| format!("{{\"example\":\"{}\"}}", case.args[1..].join(" ")));
    // rescue-raps, merkle and the lamport examples draw their inputs from a real random source
    // every time they are constructed: two constructions are two different instances, so they
    // cannot be compared across builds (C01 leaves them out as well: a run on them cannot be replayed)
    if case.kind >= 8 {
        stats::count("steps.randomised_example_skipped", 1);
        return Ok(());
    }
    let Some(ex) = build(&case) else { return Ok(()) };
    let variants = if cfg!(feature = "concurrent") { 2 } else { 1 };
    for variant in 0..variants {
        let threads = sched::begin(true);
        #[cfg(feature = "concurrent")]
        rayon::sim::set_find_any_worker0(variant == 0);
        let proof = match guard(|| ex.prove()) {
            Ok(p) => p,
            Err(_) => return Ok(()),
        };
        let d = [
            fnv(&proof.context.to_bytes()),
            fnv(&proof.commitments.to_bytes()),
            fnv(&proof.ood_frame.to_bytes()),
            proof.pow_nonce,
            fnv(&proof.to_bytes()),
        ];
        #[cfg(not(any(feature = "concurrent", feature = "real-rayon")))]
        {
            let _ = (variant, threads);
            stats::emit(format!("{key:x} {:x} {:x} {:x} {:x} {:x}", d[0], d[1], d[2], d[3], d[4]));
        }
        #[cfg(any(feature = "concurrent", feature = "real-rayon"))]
        {
            let Some(want) = reference(key) else { return Ok(()) };
            let what = format!("concurrent variant {variant} threads={threads} :: {}", case.args[1..].join(" "));
            for (i, name) in ["context-bytes-differ-from-serial-build", "commitment-bytes-differ-from-serial-build", "ood-frame-bytes-differ-from-serial-build"].iter().enumerate() {
                if d[i] != want[i] {
                    fail!(name, KINDS[case.kind], "{what}");
                }
            }
            if d[3] == want[3] {
                if d[4] != want[4] {
                    fail!("proof-bytes-differ-although-nonce-is-equal", KINDS[case.kind], "{what}");
                }
            } else if variant == 0 && cfg!(feature = "concurrent") {
                fail!("nonce-differs-although-search-was-in-order", KINDS[case.kind], "{what}");
            }
            stats::count("steps.proofs_compared_with_serial", 1);
        }
    }
    Ok(())
}
