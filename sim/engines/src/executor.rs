//! Executor seam (S2): a single-threaded executor for the `async` prover variant. Which runnable
//! task is polled next, how often a hook yields, and whether a task is cancelled (dropped) at
//! some poll are all decided by the schedule stream. No real waker, timer or thread is involved.

use std::{
    future::Future,
    pin::Pin,
    sync::Arc,
    task::{Context, Poll, Wake, Waker},
};

use simcore::{stats, tape};

struct NoopWake;
impl Wake for NoopWake {
    fn wake(self: Arc<Self>) {}
}

/// a future that is pending exactly once
pub struct YieldNow(bool);
impl Future for YieldNow {
    type Output = ();
    fn poll(mut self: Pin<&mut Self>, _cx: &mut Context<'_>) -> Poll<()> {
        if self.0 {
            Poll::Ready(())
        } else {
            self.0 = true;
            stats::count("steps.yields", 1);
            Poll::Pending
        }
    }
}

/// a tape-chosen number of yields (0..=2); called by the prover node around its hooks
pub async fn yield_points() {
    let k = tape::s("exec.yields", 3);
    for _ in 0..k {
        YieldNow(false).await;
    }
}

/// Runs the tasks to completion on one thread, polling in tape-chosen order. `cancel` drops the
/// given task after that many of its polls. Returns the outputs (None for a cancelled task).
pub fn run_tasks<T>(mut tasks: Vec<Pin<Box<dyn Future<Output = T> + '_>>>, cancel: Option<(usize, usize)>) -> Vec<Option<T>> {
    let waker = Waker::from(Arc::new(NoopWake));
    let mut cx = Context::from_waker(&waker);
    let n = tasks.len();
    let mut out: Vec<Option<T>> = (0..n).map(|_| None).collect();
    let mut live: Vec<usize> = (0..n).collect();
    let mut polls = vec![0usize; n];
    let mut sig = 0u64;
    let mut slots: Vec<Option<Pin<Box<dyn Future<Output = T> + '_>>>> = tasks.drain(..).map(Some).collect();
    while !live.is_empty() {
        let pick = if live.len() > 1 { tape::s("exec.next_task", live.len() as u64) as usize } else { 0 };
        let t = live[pick];
        if let Some((ct, at)) = cancel {
            if ct == t && polls[t] >= at {
                // cancellation: the future is dropped in the middle of the pipeline
                slots[t] = None;
                live.remove(pick);
                stats::count("fault.task_cancelled", 1);
                continue;
            }
        }
        polls[t] += 1;
        stats::count("steps.polls", 1);
        sig = simcore::rng::mix(&[sig, t as u64]);
        let done = match slots[t].as_mut().unwrap().as_mut().poll(&mut cx) {
            Poll::Ready(v) => {
                out[t] = Some(v);
                true
            },
            Poll::Pending => false,
        };
        if done {
            slots[t] = None;
            live.remove(pick);
        }
    }
    stats::sig(sig);
    out
}

pub fn block_on_single<T>(f: impl Future<Output = T>) -> T {
    let mut v = run_tasks(vec![Box::pin(f)], None);
    v.pop().unwrap().expect("single task completes")
}
