//! C01 - honest proofs verify; C02 - false statements are rejected; C29 - trace validation agrees
//! with the independent checker. All three drive the prover node / verifier node pair of
//! `protocol.rs` around GenAir instances.

use air::{proof::Proof, Air, AuxRandElements};
use crypto::{
    hashers::{Blake3_192, Blake3_256, Rp62_248, Rp64_256, RpJive64_256, Sha3_256},
    ElementHasher, MerkleTree,
};
use math::{
    fields::{CubeExtension, QuadExtension},
    ExtensibleField, FieldElement, StarkField,
};
use prover::{matrix::ColMatrix, AuxTraceWithMetadata, Prover, Trace, TraceTable};
use simcore::{
    driver::Scenario,
    fail, guard,
    rng::{mix, Rng},
    stats,
    tape::{self, Stream},
    Outcome, PanicInfo,
};
use utils::Deserializable;
#[cfg(any(feature = "concurrent", feature = "real-rayon"))]
#[allow(unused_imports)]
use utils::iterators::*;
use verifier::{AcceptableOptions, VerifierError};

use crate::{
    c20::COIN_NAMES,
    fields::{rand_elem, F128, F62, F64},
    genair::{build_aux_columns, build_main_columns, independent_check, public_inputs, GenAir, GenInputs, GenTrace, Knobs, Spec},
    protocol::{
        draw_instance, history, reset_histories, set_role, take_captured_aux, AuxFault, CapturedAux, CoinEvent, GenProver,
        Instance, RecordingCoin, LARGE, MEDIUM, PROVER, SMALL, VERIFIER,
    },
    sched, with_coin_hasher,
};

pub fn scenarios() -> Vec<Scenario> {
    let mut v = vec![
        Scenario::new(
            "C01",
            "honest-small",
            "prover node -> serialised proof over a fault-free link -> verifier node, GenAir instances with trace 8..256, every field/hash/extension/option combination; verifier accepts, transcripts are equal replicas",
            run_c01_small,
            5_000,
            400_000,
        ),
        Scenario::new(
            "C01",
            "honest-medium",
            "same with traces up to 2^11 and widths up to 255 (crosses the FFT / Merkle / transposition / evaluator thresholds in the concurrent build)",
            run_c01_medium,
            700,
            40_000,
        ),
        Scenario::new(
            "C01",
            "honest-large",
            "same with traces up to 2^13 and LDE domains up to 2^18",
            run_c01_large,
            60,
            4_000,
        ),
        Scenario::new(
            "C02",
            "false-statement",
            "witness corrupted before commitment (cell flip at first / interior / last non-exempt / exempt / asserted step, row set, column shift, auxiliary cell flip) or verifier given skewed public inputs; statements the independent checker calls false must not verify",
            run_c02,
            6_000,
            300_000,
        ),
        Scenario::new(
            "C29",
            "validate-vs-checker",
            "Trace::validate called directly on clean and fault-injected GenAir traces: returns normally exactly when the independent checker says satisfied; TraceTable built by fill / init / fragments hold the same rows",
            run_c29,
            12_000,
            300_000,
        ),
    ];
    for s in v.iter_mut() {
        s.alloc_cap = 1 << 30;
        s.watchdog_s = 120;
    }
    v
}

// HELPERS
// ================================================================================================

pub fn decode_elems<E: FieldElement>(bytes: &[Vec<u8>]) -> Vec<E> {
    bytes.iter().map(|b| E::read_from_bytes(b).expect("captured element decodes")).collect()
}

/// runs the independent checker with the auxiliary segment the prover node actually committed
pub fn check_with_captured<B>(spec: &Spec<B>, inputs: &GenInputs<B>, main: &[Vec<B>], aux: &Option<CapturedAux>) -> Result<(), String>
where
    B: StarkField + ExtensibleField<2> + ExtensibleField<3> + 'static,
{
    match aux {
        None => independent_check::<B, B>(spec, inputs, main, None),
        Some(c) => match c.ext_degree {
            1 => {
                let cols: Vec<Vec<B>> = c.columns.iter().map(|col| decode_elems(col)).collect();
                let rands: Vec<B> = decode_elems(&c.rands);
                independent_check::<B, B>(spec, inputs, main, Some((&cols, &rands)))
            },
            2 => {
                let cols: Vec<Vec<QuadExtension<B>>> = c.columns.iter().map(|col| decode_elems(col)).collect();
                let rands: Vec<QuadExtension<B>> = decode_elems(&c.rands);
                independent_check(spec, inputs, main, Some((&cols, &rands)))
            },
            _ => {
                let cols: Vec<Vec<CubeExtension<B>>> = c.columns.iter().map(|col| decode_elems(col)).collect();
                let rands: Vec<CubeExtension<B>> = decode_elems(&c.rands);
                independent_check(spec, inputs, main, Some((&cols, &rands)))
            },
        },
    }
}

pub enum ProveOutcome {
    Proof(Box<Proof>),
    Error(String),
    Panic(PanicInfo),
}

/// the prover node: builds the AIR-specific prover and runs the pipeline under the simulated
/// scheduler of this run
pub fn prove_node<B, H>(inst: &Instance, spec: &Spec<B>, inputs: &GenInputs<B>, main: Vec<Vec<B>>, aux_fault: Option<AuxFault>) -> ProveOutcome
where
    B: StarkField + ExtensibleField<2> + ExtensibleField<3> + 'static,
    H: ElementHasher<BaseField = B> + Sync + Send,
{
    let options = inst.opts.build();
    let mut p = GenProver::<B, H>::new(options, spec.clone(), inputs.clone(), inst.trace_seed);
    p.aux_fault = aux_fault;
    let trace = GenTrace::new(inst.trace_info(), main);
    set_role(PROVER);
    #[cfg(not(feature = "async"))]
    let r = guard(|| p.prove(trace));
    #[cfg(feature = "async")]
    let r = guard(|| crate::executor::block_on_single(p.prove(trace)));
    match r {
        Ok(Ok(proof)) => ProveOutcome::Proof(Box::new(proof)),
        Ok(Err(e)) => ProveOutcome::Error(format!("{e}")),
        Err(pn) => ProveOutcome::Panic(pn),
    }
}

/// the verifier node: decodes the bytes that came over the link and verifies them for `inputs`,
/// accepting the proof's own options
pub fn verify_node<B, H>(bytes: &[u8], inputs: &GenInputs<B>) -> Result<Result<(), VerifierError>, PanicInfo>
where
    B: StarkField + ExtensibleField<2> + ExtensibleField<3> + 'static,
    H: ElementHasher<BaseField = B> + Sync + Send,
{
    set_role(VERIFIER);
    guard(|| {
        let proof = match Proof::from_bytes(bytes) {
            Ok(p) => p,
            Err(e) => return Err(VerifierError::ProofDeserializationError(format!("{e}"))),
        };
        let acceptable = AcceptableOptions::OptionSet(vec![proof.options().clone()]);
        verifier::verify::<GenAir<B>, H, RecordingCoin<H>, MerkleTree<H>>(proof, inputs.clone(), &acceptable)
    })
}

/// first index at which the verifier's transcript stops being a replica of the prover's.
/// The verifier draws one more FRI alpha than the prover (after the remainder commitment); that
/// draw changes no state (the query draw reseeds and resets the counter) and is skipped.
pub fn first_divergence(p: &[CoinEvent], v: &[CoinEvent]) -> Option<(usize, String)> {
    let mut i = 0;
    let mut j = 0;
    while i < p.len() && j < v.len() {
        if p[i] == v[j] {
            i += 1;
            j += 1;
            continue;
        }
        if matches!(v[j], CoinEvent::Draw(..)) && matches!(p[i], CoinEvent::DrawInts(..)) {
            j += 1;
            continue;
        }
        return Some((i, format!("prover event #{i} {} vs verifier event #{j} {}", short_event(&p[i]), short_event(&v[j]))));
    }
    if i < p.len() {
        return Some((i, format!("verifier stopped after {j} events; prover went on with {}", short_event(&p[i]))));
    }
    None
}

fn short_event(e: &CoinEvent) -> String {
    match e {
        CoinEvent::New(b) => format!("new(seed {} bytes, hash {:x})", b.len(), crate::protocol::hash_bytes(b)),
        CoinEvent::Reseed(b) => format!("reseed({})", crate::streams::hex(&b[..8.min(b.len())])),
        CoinEvent::Draw(d, b) => format!("draw(deg {d}, {})", crate::streams::hex(&b[..8.min(b.len())])),
        CoinEvent::DrawInts(n, d, nonce, v) => format!("draw_integers({n}, {d}, nonce {nonce}) -> {:?}..", &v[..v.len().min(4)]),
    }
}

// C01
// ================================================================================================

fn run_c01_small() -> Outcome {
    c01(&SMALL)
}
fn run_c01_medium() -> Outcome {
    c01(&MEDIUM)
}
fn run_c01_large() -> Outcome {
    c01(&LARGE)
}

fn c01(lim: &crate::protocol::Limits) -> Outcome {
    let threads = sched::begin(true);
    let inst = draw_instance(lim);
    stats::sig(inst.class_sig());
    stats::sample(|| inst.describe());
    stats::nontrivial();
    with_coin_hasher!(inst.combo, H, B => honest_run::<B, H>(&inst, threads))
}

fn honest_run<B, H>(inst: &Instance, threads: usize) -> Outcome
where
    B: StarkField + ExtensibleField<2> + ExtensibleField<3> + 'static,
    H: ElementHasher<BaseField = B> + Sync + Send,
{
    let info = inst.trace_info();
    let spec = Spec::<B>::derive(&Knobs::from_meta(info.meta()), &info);
    let mut rng = Rng::new(mix(&[inst.trace_seed, 1]));
    let main = build_main_columns(&spec, &mut rng);
    let inputs = public_inputs(&spec, &main);
    probes(inst, &spec);
    reset_histories();
    let ctx = || format!("{} threads={threads}", inst.describe());
    let contested = inst.opts.fri_truncates(1 << inst.log_n);
    // a trace in which every column is constant has trace polynomials of degree 0; the prover's
    // own sanity assertion (DEEP composition degree == trace length - 2) refuses it
    let degenerate = main.iter().all(|c| c.iter().all(|v| *v == c[0]));
    if degenerate {
        stats::probe("probe.degenerate_all_columns_constant");
    }
    let proof = match prove_node::<B, H>(inst, &spec, &inputs, main.clone(), None) {
        ProveOutcome::Proof(p) => p,
        ProveOutcome::Panic(p) if degenerate && !contested => {
            fail!("honest-proof-fails", "no-trace-column-of-full-degree", "prover panic {} for {}", p.msg, ctx());
        },
        ProveOutcome::Error(e) => {
            if contested {
                fail!("honest-proof-fails", "fri-degree-truncation-config", "prover error {e} for {}", ctx());
            }
            fail!("prover-error-on-satisfying-instance", e.clone(), "{e}: {}", ctx());
        },
        ProveOutcome::Panic(p) => {
            if contested {
                fail!("honest-proof-fails", "fri-degree-truncation-config", "prover panic {} for {}", p.msg, ctx());
            }
            if p.msg.contains("FailedToDrawFieldElement") && exhaustion_plausible(inst) {
                // the coin gives up after 1000 rejected candidates; for f62 extensions a candidate is
                // accepted with probability 4^-degree, so this happens about once in 10^7 draws
                fail!("honest-proof-fails", "coin-draw-exhaustion", "prover panic {} for {}", p.msg, ctx());
            }
            fail!("prover-panic-on-satisfying-instance", p.site(), "{}:{}: {} :: {}", p.file, p.line, p.msg, ctx());
        },
    };
    let aux = take_captured_aux();
    // the instance really is satisfying (guards the generator itself)
    if let Err(why) = check_with_captured(&spec, &inputs, &main, &aux) {
        simcore::harness_error(&format!("generator produced an unsatisfying instance: {why}: {}", ctx()));
    }
    stats::count("steps.proof_bytes", proof.to_bytes().len() as u64);
    let bytes = proof.to_bytes();
    match verify_node::<B, H>(&bytes, &inputs) {
        Ok(Ok(())) => {},
        Ok(Err(e)) => {
            if contested {
                fail!("honest-proof-fails", "fri-degree-truncation-config", "verifier error {e} for {}", ctx());
            }
            if format!("{e:?}").contains("RandomCoinError") && exhaustion_plausible(inst) {
                fail!("honest-proof-fails", "coin-draw-exhaustion", "verifier error {e} for {}", ctx());
            }
            let div = first_divergence(&history(PROVER), &history(VERIFIER)).map(|d| d.1).unwrap_or_else(|| "transcripts equal up to the failure".into());
            fail!("verifier-rejects-honest-proof", format!("{e:?}").split('(').next().unwrap_or("error").to_string(), "{e} [{div}] :: {}", ctx());
        },
        Err(p) => {
            if contested {
                fail!("honest-proof-fails", "fri-degree-truncation-config", "verifier panic {} for {}", p.msg, ctx());
            }
            fail!("verifier-panic-on-honest-proof", p.site(), "{}:{}: {} :: {}", p.file, p.line, p.msg, ctx());
        },
    }
    // history check: the verifier's coin is a replica of the prover's
    if let Some((_, what)) = first_divergence(&history(PROVER), &history(VERIFIER)) {
        fail!("transcripts-diverge-although-accepted", "coin-history", "{what} :: {}", ctx());
    }
    if sched::regions() > 0 {
        stats::probe("probe.prover_ran_under_simulated_scheduler");
    }
    Ok(())
}

/// The coin gives up after 1000 rejected candidates. Only over the cubic extension of f62 is a
/// candidate rejected often enough (63 times in 64) for that to happen by chance (about once in
/// 10^7 draws); everywhere else the chance is below 2^-90 per draw, so a failed draw there is not
/// the recorded finding.
fn exhaustion_plausible(inst: &Instance) -> bool {
    crate::protocol::combo_field(inst.combo) == 0 && inst.opts.extension == 3
}

fn probes<B: StarkField>(inst: &Instance, spec: &Spec<B>) {
    use crate::genair::{AssertKind, ColRule};
    if inst.opts.queries == 255 {
        stats::probe("probe.255_queries");
    }
    if inst.main_width + inst.aux_width == 255 {
        stats::probe("probe.width_255");
    }
    if inst.aux_width > 0 {
        stats::probe("probe.auxiliary_segment");
    }
    if !spec.periodic.is_empty() {
        stats::probe("probe.periodic_columns");
    }
    if spec.exemptions > 1 {
        stats::probe("probe.more_than_one_exemption");
    }
    if inst.opts.partitions > 1 {
        stats::probe("probe.partitioned_row_hashing");
    }
    if spec.assertions.iter().any(|a| matches!(a.kind, AssertKind::Sequence { stride, .. } if spec.n / stride >= 64)) {
        stats::probe("probe.sequence_assertion_64_or_more_values");
    }
    if spec.assertions.iter().any(|a| matches!(a.kind, AssertKind::Periodic { .. })) {
        stats::probe("probe.periodic_assertion");
    }
    if spec.rules.iter().any(|r| matches!(r, ColRule::Power { degree, .. } if *degree >= 5)) {
        stats::probe("probe.degree_5_or_more");
    }
    if inst.meta_pad > 60000 {
        stats::probe("probe.metadata_65535_bytes");
    }
    if inst.opts.fri_truncates(1 << inst.log_n) {
        stats::probe("probe.contested_fri_truncation_config");
    }
    match inst.opts.extension {
        2 => stats::probe("probe.quadratic_extension"),
        3 => stats::probe("probe.cubic_extension"),
        _ => {},
    }
}

// C02
// ================================================================================================

fn run_c02() -> Outcome {
    let threads = sched::begin(true);
    let inst = draw_instance(&SMALL);
    stats::sig(inst.class_sig());
    with_coin_hasher!(inst.combo, H, B => false_statement_run::<B, H>(&inst, threads))
}

fn false_statement_run<B, H>(inst: &Instance, threads: usize) -> Outcome
where
    B: StarkField + ExtensibleField<2> + ExtensibleField<3> + 'static,
    H: ElementHasher<BaseField = B> + Sync + Send,
{
    let info = inst.trace_info();
    let spec = Spec::<B>::derive(&Knobs::from_meta(info.meta()), &info);
    let n = spec.n;
    let mut rng = Rng::new(mix(&[inst.trace_seed, 1]));
    let clean = build_main_columns(&spec, &mut rng);
    let inputs = public_inputs(&spec, &clean);
    let mut main = clean.clone();
    let mut verifier_inputs = inputs.clone();
    // what the prover seeds its transcript with: the honest inputs, except for a Byzantine prover,
    // which argues for the claimed (false) statement
    let mut prover_inputs = inputs.clone();
    let mut aux_fault = None;
    let mut frng = tape::fork(Stream::Faults, "fault.values");
    // step classes: first / interior / last non-exempt / exempt tail / an asserted cell
    let pick_step = |cls: u64| -> usize {
        match cls {
            0 => 0,
            1 => 1 + tape::f("fault.step.interior", (n - 2) as u64) as usize,
            2 => n - spec.exemptions,
            3 => (n - spec.exemptions + 1 + tape::f("fault.step.tail", spec.exemptions as u64) as usize).min(n - 1),
            _ => n - 1,
        }
    };
    let kind = tape::weighted(Stream::Faults, "fault.kind", &[5, 2, 1, 2, 2, 2, 8]);
    let kind_name;
    match kind {
        0 => {
            let cls = tape::f("fault.step.class", 5);
            let col = tape::f("fault.col", spec.main_width as u64) as usize;
            let step = pick_step(cls);
            main[col][step] += B::ONE;
            kind_name = ["cell_flip_first_step", "cell_flip_interior", "cell_flip_last_non_exempt", "cell_flip_exempt_tail", "cell_flip_last_step"][cls as usize];
        },
        1 => {
            // flip exactly a cell an assertion covers
            let a = &spec.assertions[tape::f("fault.assertion", spec.assertions.len() as u64) as usize];
            let steps = a.steps(n);
            // first, last or any instance of the assertion (the ends of the progression are where an
            // off-by-one in the step enumeration hides)
            let step = match tape::f("fault.assertion.step.class", 3) {
                0 => steps[0],
                1 => steps[steps.len() - 1],
                _ => steps[tape::f("fault.assertion.step", steps.len() as u64) as usize],
            };
            main[a.column][step] += B::ONE;
            kind_name = "cell_flip_asserted_cell";
        },
        2 => {
            let step = pick_step(tape::f("fault.step.class", 5));
            for col in main.iter_mut() {
                col[step] = rand_elem::<B>(&mut frng);
            }
            kind_name = "row_set";
        },
        3 => {
            let col = tape::f("fault.col", spec.main_width as u64) as usize;
            main[col].rotate_left(1);
            kind_name = "column_shift";
        },
        4 => {
            if spec.aux_width == 0 {
                return Ok(());
            }
            let step = pick_step(tape::f("fault.step.class", 5));
            aux_fault = Some(AuxFault::flip(tape::f("fault.auxcol", spec.aux_width as u64) as usize, step));
            kind_name = "aux_cell_flip";
        },
        5 => {
            let i = tape::f("fault.input", verifier_inputs.values.len() as u64) as usize;
            verifier_inputs.values[i] += B::ONE;
            kind_name = "public_input_skew";
        },
        _ => {
            // A Byzantine prover's witness crafted against coefficient reuse: two requirements with
            // a pole at the same domain point are violated by errors whose residues cancel exactly
            // when the two composition coefficients are EQUAL. With independent coefficients (the
            // protocol as specified) the statement is false and rejected; a prover / verifier pair
            // that hands the same coefficient to both constraints accepts it.
            match crafted_cancellation::<B>(&spec, &clean, &mut frng) {
                Some((m, claimed, af, name)) => {
                    main = m;
                    verifier_inputs = claimed;
                    aux_fault = af;
                    prover_inputs = verifier_inputs.clone();
                    kind_name = name;
                },
                None => return Ok(()),
            }
        },
    }
    stats::sample(|| format!("{{\"fault\":\"{kind_name}\",\"instance\":{}}}", inst.describe()));
    reset_histories();
    let outcome = prove_node::<B, H>(inst, &spec, &prover_inputs, main.clone(), aux_fault);
    let aux = take_captured_aux();
    let proof = match outcome {
        ProveOutcome::Proof(p) => p,
        // the prover failing to produce a proof is an allowed outcome
        _ => {
            stats::count("fault.prover_failed_instead", 1);
            return Ok(());
        },
    };
    // classification by the independent checker, against the statement the verifier is given
    let verdict = check_with_captured(&spec, &verifier_inputs, &main, &aux);
    let contested = inst.opts.fri_truncates(n);
    let bytes = proof.to_bytes();
    let v = verify_node::<B, H>(&bytes, &verifier_inputs);
    match verdict {
        Ok(()) => {
            // the fault left the statement true (e.g. a flip in the exempt tail): C01's oracle
            stats::count("fault.left_statement_true", 1);
            match v {
                Ok(Ok(())) => Ok(()),
                _ if contested => Ok(()),
                Ok(Err(e)) => fail!("verifier-rejects-honest-proof", "after-harmless-fault", "{kind_name} left the statement true but the verifier said {e} :: {} threads={threads}", inst.describe()),
                Err(p) => fail!("verifier-panic-on-honest-proof", p.site(), "{} :: {}", p.msg, inst.describe()),
            }
        },
        Err(why) => {
            stats::count(&format!("fault.{kind_name}"), 1);
            stats::nontrivial();
            stats::sig(kind as u64 + 0xf00);
            match v {
                Ok(Ok(())) => fail!("accepts-false-statement", kind_name, "{kind_name}: {why}; yet the proof verifies :: {} threads={threads}", inst.describe()),
                // rejections and verifier panics both keep the false statement out; panics are
                // C05's concern
                _ => Ok(()),
            }
        },
    }
}

/// rows `from + 1 ..` of `main` recomputed by the transition rules from row `from` (exempt tail of
/// free columns left as it is)
fn recompute_forward<B: StarkField>(spec: &Spec<B>, main: &mut [Vec<B>], from: usize) {
    let n = spec.n;
    let np = spec.periodic.len();
    let last_ruled = n - spec.exemptions;
    for t in from..n - 1 {
        let cur: Vec<B> = (0..spec.main_width).map(|j| main[j][t]).collect();
        let periodic: Vec<B> = (0..np).map(|p| spec.periodic_at(p, t)).collect();
        for j in 0..spec.main_width {
            if t >= last_ruled && spec.free_tail[j] {
                continue;
            }
            main[j][t + 1] = spec.next_value::<B>(j, &cur, &periodic);
        }
    }
}

/// index of the first public value of each assertion
fn assertion_value_positions<B: StarkField>(spec: &Spec<B>) -> Vec<usize> {
    let mut pos = 0;
    spec.assertions
        .iter()
        .map(|a| {
            let p = pos;
            pos += a.num_values(spec.n);
            p
        })
        .collect()
}

/// see the call site; returns (main trace, claimed public inputs, auxiliary fault, fault name)
#[allow(clippy::type_complexity)]
fn crafted_cancellation<B: StarkField>(spec: &Spec<B>, clean: &[Vec<B>], frng: &mut Rng) -> Option<(Vec<Vec<B>>, GenInputs<B>, Option<AuxFault>, &'static str)> {
    use crate::genair::AssertKind;
    let n = spec.n;
    let w = spec.main_width;
    let mut main = clean.to_vec();
    let positions = assertion_value_positions(spec);
    // single assertions on step 0: (assertion index, column)
    let at_zero: Vec<(usize, usize)> =
        spec.assertions.iter().enumerate().filter(|(_, a)| matches!(a.kind, AssertKind::Single { step: 0 })).map(|(i, a)| (i, a.column)).collect();
    let e: B = {
        let v = rand_elem::<B>(frng);
        if v == B::ZERO { B::ONE } else { v }
    };
    // residue of 1 / Z_T at x = 1, Z_T = (x^n - 1) / prod_{k=1..exemptions} (x - g^(n-k))
    let g = B::get_root_of_unity(n.ilog2());
    let mut rho = B::ONE;
    for k in 1..=spec.exemptions {
        rho *= B::ONE - g.exp_vartime(((n - k) as u64).into());
    }
    rho /= B::from(n as u32);
    let mut keep: Vec<usize> = Vec::new(); // assertions whose claimed value stays the honest one
    let mut aux_fault = None;
    let sub = tape::f("fault.crafted.kind", 9);
    let name = match sub {
        0 => {
            // two assertions of one boundary group (step 0): errors e and -e
            if at_zero.len() < 2 {
                return None;
            }
            let i = tape::f("fault.crafted.a", at_zero.len() as u64) as usize;
            let mut j = tape::f("fault.crafted.b", at_zero.len() as u64 - 1) as usize;
            if j >= i {
                j += 1;
            }
            main[at_zero[i].1][0] += e;
            main[at_zero[j].1][0] -= e;
            recompute_forward(spec, &mut main, 0);
            keep.extend([at_zero[i].0, at_zero[j].0]);
            "crafted_two_assertions_cancel"
        },
        1 => {
            // an assertion on step 0 against a transition constraint on step 0
            if at_zero.is_empty() {
                return None;
            }
            let (ai, c) = at_zero[tape::f("fault.crafted.a", at_zero.len() as u64) as usize];
            let t = tape::f("fault.crafted.t", w as u64) as usize;
            main[c][0] -= e * rho;
            recompute_forward(spec, &mut main, 0);
            main[t][1] += e;
            recompute_forward(spec, &mut main, 1);
            keep.push(ai);
            "crafted_assertion_against_transition"
        },
        2 => {
            // two transition constraints on one step: errors e and -e
            if w < 2 || n - spec.exemptions < 2 {
                return None;
            }
            let s = tape::f("fault.crafted.step", (n - spec.exemptions) as u64) as usize;
            let t1 = tape::f("fault.crafted.a", w as u64) as usize;
            let mut t2 = tape::f("fault.crafted.b", w as u64 - 1) as usize;
            if t2 >= t1 {
                t2 += 1;
            }
            main[t1][s + 1] += e;
            main[t2][s + 1] -= e;
            recompute_forward(spec, &mut main, s + 1);
            "crafted_two_transitions_cancel"
        },
        3 => {
            // a main assertion on step 0 against the auxiliary assertion of one column (step 0)
            if at_zero.is_empty() || spec.aux_width == 0 {
                return None;
            }
            let (ai, c) = at_zero[tape::f("fault.crafted.a", at_zero.len() as u64) as usize];
            let k = 1 + tape::f("fault.crafted.delta", 1000) as i64;
            main[c][0] += B::from(k as u32);
            recompute_forward(spec, &mut main, 0);
            keep.push(ai);
            aux_fault = Some(AuxFault { col: tape::f("fault.auxcol", spec.aux_width as u64) as usize, step: 0, delta: -k, rebuild_forward: true });
            "crafted_main_assertion_against_aux_assertion"
        },
        5 => {
            // isolated: one assertion on step 0 fails and nothing else does (the rest of the trace
            // follows from the changed first row) - a dropped boundary constraint cannot hide
            // behind a transition that fails as well
            let zero_cover: Vec<(usize, usize)> = spec
                .assertions
                .iter()
                .enumerate()
                .filter(|(_, a)| match a.kind {
                    AssertKind::Single { step } => step == 0,
                    AssertKind::Periodic { first, .. } | AssertKind::Sequence { first, .. } => first == 0,
                })
                .map(|(i, a)| (i, a.column))
                .collect();
            let (ai, c) = zero_cover[tape::f("fault.crafted.a", zero_cover.len() as u64) as usize];
            if matches!(spec.assertions[ai].kind, AssertKind::Periodic { .. }) {
                // the claimed value of a periodic assertion is one number for all its steps
                return None;
            }
            main[c][0] += e;
            recompute_forward(spec, &mut main, 0);
            keep.push(ai);
            "isolated_main_assertion_on_first_step"
        },
        6 => {
            if spec.aux_width == 0 {
                return None;
            }
            let k = 1 + tape::f("fault.crafted.delta", 1000) as i64;
            aux_fault = Some(AuxFault { col: tape::f("fault.auxcol", spec.aux_width as u64) as usize, step: 0, delta: k, rebuild_forward: true });
            "isolated_aux_assertion"
        },
        7 => {
            // isolated: one transition constraint fails on one step and nothing else does
            if n - spec.exemptions < 2 {
                return None;
            }
            let s = tape::f("fault.crafted.step", (n - spec.exemptions) as u64) as usize;
            let t = tape::f("fault.crafted.t", w as u64) as usize;
            main[t][s + 1] += e;
            recompute_forward(spec, &mut main, s + 1);
            "isolated_main_transition"
        },
        8 => {
            if spec.aux_width == 0 || n - spec.exemptions < 2 {
                return None;
            }
            let s = tape::f("fault.crafted.step", (n - spec.exemptions) as u64) as usize;
            let k = 1 + tape::f("fault.crafted.delta", 1000) as i64;
            aux_fault = Some(AuxFault { col: tape::f("fault.auxcol", spec.aux_width as u64) as usize, step: s + 1, delta: k, rebuild_forward: true });
            "isolated_aux_transition"
        },
        _ => {
            // a main transition against an auxiliary transition on the same step
            if spec.aux_width == 0 || n - spec.exemptions < 2 {
                return None;
            }
            let s = tape::f("fault.crafted.step", (n - spec.exemptions) as u64) as usize;
            let t = tape::f("fault.crafted.t", w as u64) as usize;
            let k = 1 + tape::f("fault.crafted.delta", 1000) as i64;
            main[t][s + 1] += B::from(k as u32);
            recompute_forward(spec, &mut main, s + 1);
            aux_fault = Some(AuxFault { col: tape::f("fault.auxcol", spec.aux_width as u64) as usize, step: s + 1, delta: -k, rebuild_forward: true });
            "crafted_main_transition_against_aux_transition"
        },
    };
    // the claimed statement: every asserted value read off the crafted trace, except the ones the
    // crafted errors are aimed at, which keep their honest values
    let honest = public_inputs(spec, clean);
    let mut claimed = public_inputs(spec, &main);
    for ai in keep {
        let p = positions[ai];
        claimed.values[p] = honest.values[p];
    }
    Some((main, claimed, aux_fault, name))
}

// C29
// ================================================================================================

fn run_c29() -> Outcome {
    let threads = sched::begin(false);
    let inst = draw_instance(&SMALL);
    stats::sig(inst.class_sig());
    let field = crate::protocol::combo_field(inst.combo);
    let ext = inst.opts.extension;
    match (field, ext) {
        (0, 1) => c29::<F62, F62>(&inst, threads),
        (0, 2) => c29::<F62, QuadExtension<F62>>(&inst, threads),
        (0, _) => c29::<F62, CubeExtension<F62>>(&inst, threads),
        (1, 1) => c29::<F64, F64>(&inst, threads),
        (1, 2) => c29::<F64, QuadExtension<F64>>(&inst, threads),
        (1, _) => c29::<F64, CubeExtension<F64>>(&inst, threads),
        (_, 1) => c29::<F128, F128>(&inst, threads),
        _ => c29::<F128, QuadExtension<F128>>(&inst, threads),
    }
}

fn c29<B, E>(inst: &Instance, threads: usize) -> Outcome
where
    B: StarkField + ExtensibleField<2> + ExtensibleField<3> + 'static,
    E: FieldElement<BaseField = B>,
{
    let info = inst.trace_info();
    let spec = Spec::<B>::derive(&Knobs::from_meta(info.meta()), &info);
    let n = spec.n;
    let mut rng = Rng::new(mix(&[inst.trace_seed, 1]));
    let clean = build_main_columns(&spec, &mut rng);
    let inputs = public_inputs(&spec, &clean);
    let mut main = clean.clone();
    // auxiliary segment for harness-drawn random elements
    let rands: Vec<E> = (0..spec.num_rands).map(|_| rand_elem::<E>(&mut rng)).collect();
    let mut tail = Rng::new(mix(&[inst.trace_seed, 0xa0c5]));
    let mut aux: Vec<Vec<E>> = if spec.aux_width > 0 { build_aux_columns::<B, E>(&spec, &main, &rands, &mut tail) } else { Vec::new() };
    // fault: none, or one cell at a step class
    let fault = tape::weighted(Stream::Faults, "c29.fault", &[3, 6, 2, 2]);
    let cls = tape::f("c29.step.class", 6);
    let step = match cls {
        0 => 0,
        1 => 1 + tape::f("c29.step.interior", (n - 2) as u64) as usize,
        2 => n - spec.exemptions - 1,
        3 => n - spec.exemptions,
        4 => (n - spec.exemptions + 1).min(n - 1),
        _ => n - 1,
    };
    let fname = match fault {
        0 => "none",
        1 => {
            let col = tape::f("c29.col", spec.main_width as u64) as usize;
            main[col][step] += B::ONE;
            ["main_cell_first", "main_cell_interior", "main_cell_before_last_non_exempt", "main_cell_last_non_exempt", "main_cell_exempt", "main_cell_last"][cls as usize]
        },
        2 => {
            if spec.aux_width == 0 {
                "none"
            } else {
                let col = tape::f("c29.auxcol", spec.aux_width as u64) as usize;
                aux[col][step] += E::ONE;
                "aux_cell"
            }
        },
        _ => {
            let a = &spec.assertions[tape::f("c29.assertion", spec.assertions.len() as u64) as usize];
            let steps = a.steps(n);
            let s = match tape::f("c29.assertion.step.class", 3) {
                0 => steps[0],
                1 => steps[steps.len() - 1],
                _ => steps[tape::f("c29.assertion.step", steps.len() as u64) as usize],
            };
            main[a.column][s] += B::ONE;
            "asserted_cell"
        },
    };
    stats::sample(|| format!("{{\"fault\":\"{fname}\",\"step\":{step},\"instance\":{}}}", inst.describe()));
    let verdict = independent_check::<B, E>(&spec, &inputs, &main, if spec.aux_width > 0 { Some((&aux, &rands)) } else { None });
    if fname != "none" {
        stats::count(&format!("fault.{fname}"), 1);
    }
    if verdict.is_err() {
        stats::count("probe.checker_says_unsatisfied", 1);
    } else {
        stats::count("probe.checker_says_satisfied", 1);
    }
    stats::sig(fault as u64 * 8 + cls);
    stats::nontrivial();
    // the library's validation, called directly
    let options = inst.opts.build();
    let air = match guard(|| GenAir::<B>::new(info.clone(), inputs.clone(), options)) {
        Ok(a) => a,
        Err(p) => fail!("panic", p.site(), "Air::new for a generated instance: {} :: {}", p.msg, inst.describe()),
    };
    let trace = GenTrace::new(info.clone(), main.clone());
    let aux_meta = if spec.aux_width > 0 {
        Some(AuxTraceWithMetadata { aux_trace: ColMatrix::new(aux.clone()), aux_rand_elements: AuxRandElements::new(rands.clone()) })
    } else {
        None
    };
    // `validate` signals an invalid trace by panicking (inside winter-prover)
    let validated = guard(|| trace.validate::<GenAir<B>, E>(&air, aux_meta.as_ref())).is_ok();
    match (validated, &verdict) {
        (true, Ok(())) | (false, Err(_)) => {},
        (true, Err(why)) => fail!("validate-accepts-unsatisfying-trace", fname, "{why}, but Trace::validate returned normally :: {} threads={threads}", inst.describe()),
        (false, Ok(())) => fail!("validate-rejects-satisfying-trace", fname, "independent checker finds every assertion and transition satisfied, but Trace::validate panicked :: {}", inst.describe()),
    }
    let _ = air.trace_length();
    // trace tables built three ways hold the same rows (base-field part of the statement)
    if fault == 0 && spec.main_width <= 64 {
        table_three_ways::<B>(&spec, &clean, threads)?;
    }
    Ok(())
}

/// TraceTable by `fill`, by `init` and by `fragments` (filled in scheduler-chosen order)
fn table_three_ways<B: StarkField>(spec: &Spec<B>, cols: &[Vec<B>], threads: usize) -> Outcome {
    let n = spec.n;
    let w = spec.main_width;
    // a closed-form row function so that fragments can be filled independently
    let row = |step: usize, state: &mut [B]| {
        for (j, s) in state.iter_mut().enumerate() {
            *s = cols[j][step];
        }
    };
    let by_init = match guard(|| TraceTable::init(cols.to_vec())) {
        Ok(t) => t,
        Err(p) => fail!("panic", p.site(), "TraceTable::init: {}", p.msg),
    };
    let mut by_fill = TraceTable::<B>::new(w, n);
    if let Err(p) = guard(|| by_fill.fill(|state| row(0, state), |step, state| row(step + 1, state))) {
        fail!("panic", p.site(), "TraceTable::fill: {}", p.msg);
    }
    let mut by_frag = TraceTable::<B>::new(w, n);
    let frag_len = 1usize << (1 + tape::w("c29.fragment.log", (n.ilog2()) as u64) as u32).min(n.ilog2());
    // what a fragment reports about itself must be possible: `fragment_length` rows starting at a
    // step that lies inside the trace on a fragment boundary (which index gets which offset is not
    // documented and not demanded); a fragment that says otherwise is not filled
    let bad_fragment: std::sync::Mutex<Option<String>> = std::sync::Mutex::new(None);
    let sane = |index: usize, offset: usize, length: usize| -> bool {
        if length == frag_len && offset % frag_len == 0 && offset + length <= n {
            return true;
        }
        let mut b = bad_fragment.lock().unwrap();
        if b.is_none() {
            *b = Some(format!("fragment {index} reports offset {offset} and length {length}, which is not a block of {frag_len} rows on a fragment boundary of a {n}-row trace"));
        }
        false
    };
    if let Err(p) = guard(|| {
        by_frag.fragments(frag_len).for_each(|mut frag| {
            let offset = frag.offset();
            if sane(frag.index(), offset, frag.length()) {
                frag.fill(|state| row(offset, state), |step, state| row(offset + step + 1, state));
            }
        })
    }) {
        fail!("panic", p.site(), "TraceTable::fragments({frag_len}): {}", p.msg);
    }
    if let Some(why) = bad_fragment.lock().unwrap().take() {
        fail!("trace-tables-differ", "fragment-layout", "{why} (threads {threads}, trace {n}x{w})");
    }
    for j in 0..w {
        for t in 0..n {
            let (a, b, c) = (by_init.get(j, t), by_fill.get(j, t), by_frag.get(j, t));
            if a != cols[j][t] || b != a || c != a {
                let which = if a != cols[j][t] { "init" } else if b != a { "fill" } else { "fragments" };
                fail!("trace-tables-differ", which, "cell ({j},{t}) differs in the table built by {which} (fragment length {frag_len}, threads {threads}, trace {n}x{w})");
            }
        }
    }
    stats::probe("probe.three_table_constructions_compared");
    // Fragment semantics with state that the closures do not overwrite. `fill` documents that
    // `init` receives an all-zero state; here `init` writes the even registers only, and some
    // fragments are first filled with junk and then filled again (a retry / two-pass build): the
    // table must equal the model - every fragment's first row is `init` applied to zeros.
    let mut refill = TraceTable::<B>::new(w, n);
    let retry_mask = tape::s("c29.fragment.refill_mask", 1 << 8);
    if let Err(p) = guard(|| {
        refill.fragments(frag_len).for_each(|mut frag| {
            let offset = frag.offset();
            if !sane(frag.index(), offset, frag.length()) {
                return;
            }
            if (retry_mask >> (frag.index() % 8)) & 1 == 1 {
                frag.fill(|state| state.iter_mut().for_each(|s| *s = B::from(7u32)), |_, state| state.iter_mut().for_each(|s| *s += B::ONE));
            }
            frag.fill(
                |state| {
                    for (j, s) in state.iter_mut().enumerate().filter(|(j, _)| j % 2 == 0) {
                        *s = cols[j][offset];
                    }
                },
                |step, state| row(offset + step + 1, state),
            );
        })
    }) {
        fail!("panic", p.site(), "TraceTable::fragments({frag_len}) with a second fill: {}", p.msg);
    }
    for j in 0..w {
        for t in 0..n {
            let want = if t % frag_len == 0 && j % 2 == 1 { B::ZERO } else { cols[j][t] };
            if refill.get(j, t) != want {
                fail!(
                    "trace-tables-differ",
                    "fragments-refilled",
                    "cell ({j},{t}) of a table whose fragments were filled by closures that leave odd registers of the first row untouched (refill mask {retry_mask:#x}): got {:?}, the documented all-zero initial state gives {:?} (fragment length {frag_len}, threads {threads}, trace {n}x{w})",
                    refill.get(j, t),
                    want
                );
            }
        }
    }
    if retry_mask != 0 {
        stats::probe("probe.fragment_filled_twice");
    }
    Ok(())
}

/// C06's clause "building a trace table in parallel from fragments yields the same table as filling
/// it sequentially", on its own so that every build configuration of C06 runs it
pub fn fragments_scenario() -> Outcome {
    let threads = sched::begin(false);
    let inst = draw_instance(&SMALL);
    stats::sig(inst.class_sig() ^ threads as u64);
    stats::nontrivial();
    fn go<B: StarkField + ExtensibleField<2> + ExtensibleField<3> + 'static>(inst: &Instance, threads: usize) -> Outcome {
        let info = inst.trace_info();
        let spec = Spec::<B>::derive(&Knobs::from_meta(info.meta()), &info);
        let mut rng = Rng::new(mix(&[inst.trace_seed, 1]));
        let cols = build_main_columns(&spec, &mut rng);
        let width = spec.main_width.min(64);
        let mut narrow = spec.clone();
        narrow.main_width = width;
        table_three_ways::<B>(&narrow, &cols[..width], threads)
    }
    match crate::protocol::combo_field(inst.combo) {
        0 => go::<F62>(&inst, threads),
        1 => go::<F64>(&inst, threads),
        _ => go::<F128>(&inst, threads),
    }
}
