//! Scheduler seam glue: picks the simulated worker count of a run.

use simcore::{stats, tape};

/// Thread counts 1..=16 densely, plus a few larger ones (every `T` is legal for rayon).
const EXTRA: [usize; 6] = [17, 24, 32, 33, 48, 64];

/// Draws the simulated worker count for this run from the schedule stream and installs it in the
/// rayon stand-in. In builds without the `concurrent` feature there is nothing to schedule and
/// the count is 1.
pub fn begin(max16: bool) -> usize {
    #[cfg(feature = "concurrent")]
    {
        let v = tape::s("threads", if max16 { 16 } else { 16 + EXTRA.len() as u64 }) as usize;
        let t = if v < 16 { v + 1 } else { EXTRA[v - 16] };
        rayon::sim::set_threads(t);
        stats::sig(0x7000 + t as u64);
        stats::count(&format!("threads.{t:02}"), 1);
        t
    }
    #[cfg(not(feature = "concurrent"))]
    {
        let _ = (max16, &EXTRA, tape::s as fn(&'static str, u64) -> u64, stats::sig as fn(u64));
        1
    }
}

/// number of parallel regions the stand-in executed so far in this run
pub fn regions() -> u64 {
    #[cfg(feature = "concurrent")]
    {
        rayon::sim::regions()
    }
    #[cfg(not(feature = "concurrent"))]
    {
        0
    }
}
