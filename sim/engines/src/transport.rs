//! Transport properties: C04 (tampered bytes are rejected unless semantically identical),
//! C05 (untrusted bytes never crash or hang the decoder / verifier), C07 (protocol objects survive
//! serialisation round trips, through chunked streams as well).

use air::{
    proof::{Commitments, Context, OodFrame, Proof, Queries},
    Air, FieldExtension, ProofOptions, TraceInfo,
};
use crypto::{
    hashers::{Blake3_192, Blake3_256, Rp62_248, Rp64_256, RpJive64_256, Sha3_256},
    BatchMerkleProof, ElementHasher, Hasher, MerkleTree,
};
use fri::FriProof;
use math::{
    fields::{CubeExtension, QuadExtension},
    ExtensibleField, FieldElement, StarkField,
};
use simcore::{
    driver::Scenario,
    fail, guard,
    rng::{mix, Rng},
    stats,
    tape::{self, Stream},
    Outcome,
};
use utils::{ByteReader, Deserializable, ReadAdapter, Serializable, SliceReader};
use verifier::AcceptableOptions;

use crate::{
    c01::{prove_node, ProveOutcome},
    c20::COIN_NAMES,
    fields::{F128, F62, F64},
    genair::{build_main_columns, public_inputs, GenAir, GenInputs, Knobs, Spec},
    protocol::{draw_instance, reset_histories, set_role, CoinEvent, Instance, Limits, RecordingCoin, VERIFIER},
    sched,
    streams::{hex, SimReader, SimWriter},
    wire::{sim_link, Img},
    with_coin_hasher,
};

pub fn scenarios() -> Vec<Scenario> {
    let mut v = vec![
        Scenario::new(
            "C04",
            "tamper",
            "honest proof -> link with 1..3 faults (byte level, single-field edits, coordinated multi-site edits) -> decode -> verify for the honest inputs under three verifier policies; a tampered proof that verifies must parse to the same contents",
            run_c04,
            2_500,
            80_000,
        ),
        Scenario::new(
            "C05",
            "proof-bytes",
            "tampered proofs biased to lengths / counts / tags / exponents / option bytes, honest prefixes and random bytes -> Proof::from_bytes -> verify under OptionSet / MinConjecturedSecurity / MinProvenSecurity: no panic, abort, oversized allocation or hang",
            run_c05_proof,
            2_500,
            80_000,
        ),
        Scenario::new(
            "C05",
            "component-bytes",
            "arbitrary and damaged bytes decoded as each component type (TraceInfo, ProofOptions, Context, Commitments, Queries, OodFrame, FriProof, BatchMerkleProof, digests, field elements): value or error, never a panic",
            run_c05_components,
            60_000,
            1_500_000,
        ),
        Scenario::new(
            "C07",
            "proof-roundtrip",
            "every generated proof: encode (Vec and short-writing stream) -> decode (slice and chunked ReadAdapter) -> equal, nothing left over, re-encodes to the same bytes, same verdict as the in-memory proof (accept for honest, reject for false statements)",
            run_c07_proofs,
            2_500,
            80_000,
        ),
        Scenario::new(
            "C07",
            "component-values",
            "values of each component type built through public constructors (boundary values enumerated, interiors from the tape) round-trip through their own encoding",
            run_c07_components,
            40_000,
            1_000_000,
        ),
    ];
    v.push(Scenario::new(
        "C05",
        "byzantine-options",
        "proofs that only a Byzantine prover can produce: the whole pipeline run honestly on a coin that is not bound by the library coin's preconditions, for option sets the honest prover refuses (more queries than LDE domain points); decoded and verified under the proof's own options and under security-level policies: error or accept, never a panic",
        run_c05_byzantine,
        1_500,
        40_000,
    ));
    v.push(Scenario::new(
        "C07",
        "fri-proof-values",
        "FriProof values as the FRI prover builds them (domains up to 2^14, 255 queries, folding 16, quadratic / cubic elements: layers above 64 KiB) through their own encoding, by slice and by chunked stream",
        crate::c08::c07_fri_values,
        1_500,
        60_000,
    ));
    for s in v.iter_mut() {
        s.alloc_cap = 1 << 30;
        s.watchdog_s = 90;
        // crashes on tampered bytes are C05's subject; C04 only judges what verifies
        if s.property == "C04" {
            s.fatal_is_violation = false;
        }
    }
    v
}

const TINY: Limits = Limits { max_log_n: 6, max_log_lde: 10, max_width: 24, max_grinding: 4, allow_meta_pad: true };

/// an honest instance with its proof
pub struct Honest<B: StarkField> {
    pub spec: Spec<B>,
    pub inputs: GenInputs<B>,
    pub proof: Proof,
    pub bytes: Vec<u8>,
}

pub fn honest<B, H>(inst: &Instance) -> Option<Honest<B>>
where
    B: StarkField + ExtensibleField<2> + ExtensibleField<3> + 'static,
    H: ElementHasher<BaseField = B> + Sync + Send,
{
    let info = inst.trace_info();
    let spec = Spec::<B>::derive(&Knobs::from_meta(info.meta()), &info);
    let mut rng = Rng::new(mix(&[inst.trace_seed, 1]));
    let main = build_main_columns(&spec, &mut rng);
    let inputs = public_inputs(&spec, &main);
    reset_histories();
    match prove_node::<B, H>(inst, &spec, &inputs, main, None) {
        ProveOutcome::Proof(p) => {
            let bytes = p.to_bytes();
            Some(Honest { spec, inputs, proof: *p, bytes })
        },
        // known failing configurations are C01's business
        _ => None,
    }
}

fn digest_size<H: Hasher>() -> usize {
    H::Digest::default().to_bytes().len()
}

fn policy_name(p: u64) -> &'static str {
    ["honest-option-set", "proofs-own-options", "min-conjectured-security-0"][p as usize]
}

fn verify_with<B, H>(proof: Proof, inputs: &GenInputs<B>, policy: &AcceptableOptions) -> Result<Result<(), verifier::VerifierError>, simcore::PanicInfo>
where
    B: StarkField + ExtensibleField<2> + ExtensibleField<3> + 'static,
    H: ElementHasher<BaseField = B> + Sync + Send,
{
    set_role(VERIFIER);
    guard(|| verifier::verify::<GenAir<B>, H, RecordingCoin<H>, MerkleTree<H>>(proof, inputs.clone(), policy))
}

// PARSED CONTENTS
// ================================================================================================

/// Parsed contents of a proof, rendered canonically: context, unique-query count, commitment
/// digests, query values and openings, out-of-domain frame, FRI layers and remainder, nonce.
/// Obtained with the library's own component parsers and the shapes the AIR expects.
fn parsed_contents<B, E, H>(proof: &Proof) -> Result<Vec<String>, String>
where
    B: StarkField + ExtensibleField<2> + ExtensibleField<3> + 'static,
    E: FieldElement<BaseField = B>,
    H: ElementHasher<BaseField = B> + Sync + Send,
{
    let info = proof.context.trace_info().clone();
    let air = GenAir::<B>::new(info.clone(), GenInputs { values: Vec::new() }, proof.options().clone());
    let lde = air.lde_domain_size();
    let fri_opts = air.options().to_fri_options();
    let nq = proof.num_unique_queries as usize;
    let mut out = Vec::new();
    // the context, field by field, so that a difference can be named
    let ctx = &proof.context;
    out.push(format!("context.trace_shape {} {} {} {}", info.main_trace_width(), info.aux_segment_width(), info.get_num_aux_segment_rand_elements(), info.length()));
    out.push(format!("context.trace_meta {:?}", info.meta()));
    out.push(format!("context.field_modulus {:?}", ctx.field_modulus_bytes()));
    out.push(format!("context.num_constraints {}", ctx.num_constraints()));
    out.push(format!("context.partition_options {:?}", ctx.options().partition_options()));
    out.push(format!("context.options {:?}", ctx.options()));
    out.push(format!("unique_queries {nq}"));
    let (t, c, f) = proof
        .commitments
        .clone()
        .parse::<H>(info.num_segments(), fri_opts.num_fri_layers(lde))
        .map_err(|e| format!("commitments: {e}"))?;
    out.push(format!("commitments {t:?} {c:?} {f:?}"));
    for (i, q) in proof.trace_queries.iter().enumerate() {
        if i == 0 {
            let (p, tbl) = q.clone().parse::<B, H, MerkleTree<H>>(lde, nq, info.main_trace_width()).map_err(|e| format!("main queries: {e}"))?;
            out.push(format!("main_query_values {:?}", tbl.rows().collect::<Vec<_>>()));
            out.push(format!("main_opening_nodes depth {} nodes {:?}", p.depth, p.nodes));
        } else {
            let (p, tbl) = q.clone().parse::<E, H, MerkleTree<H>>(lde, nq, info.aux_segment_width()).map_err(|e| format!("aux queries: {e}"))?;
            out.push(format!("aux_query_values {:?}", tbl.rows().collect::<Vec<_>>()));
            out.push(format!("aux_opening_nodes depth {} nodes {:?}", p.depth, p.nodes));
        }
    }
    let ncomp = air.context().num_constraint_composition_columns();
    let (p, tbl) = proof.constraint_queries.clone().parse::<E, H, MerkleTree<H>>(lde, nq, ncomp).map_err(|e| format!("constraint queries: {e}"))?;
    out.push(format!("constraint_query_values {:?}", tbl.rows().collect::<Vec<_>>()));
    out.push(format!("constraint_opening_nodes depth {} nodes {:?}", p.depth, p.nodes));
    let (tf, qf) = proof.ood_frame.clone().parse::<E>(info.main_trace_width(), info.aux_segment_width(), ncomp).map_err(|e| format!("ood: {e}"))?;
    out.push(format!("ood {:?} {:?} {:?} {:?}", tf.current_row(), tf.next_row(), qf.current_row(), qf.next_row()));
    let rem: Vec<E> = proof.fri_proof.parse_remainder().map_err(|e| format!("remainder: {e}"))?;
    out.push(format!("remainder {rem:?}"));
    let (lq, lp) = proof.fri_proof.clone().parse_layers::<E, H, MerkleTree<H>>(lde, fri_opts.folding_factor()).map_err(|e| format!("fri layers: {e}"))?;
    out.push(format!("fri_layer_values {:?}", lq));
    out.push(format!("fri_opening_nodes {:?}", lp.iter().map(|p| (p.depth, p.nodes.clone())).collect::<Vec<_>>()));
    out.push(format!("nonce {}", proof.pow_nonce));
    Ok(out)
}

fn parsed_contents_dyn<B, H>(proof: &Proof) -> Result<Vec<String>, String>
where
    B: StarkField + ExtensibleField<2> + ExtensibleField<3> + 'static,
    H: ElementHasher<BaseField = B> + Sync + Send,
{
    let r = guard(|| match proof.options().field_extension() {
        FieldExtension::None => parsed_contents::<B, B, H>(proof),
        FieldExtension::Quadratic => parsed_contents::<B, QuadExtension<B>, H>(proof),
        FieldExtension::Cubic => parsed_contents::<B, CubeExtension<B>, H>(proof),
    });
    match r {
        Ok(x) => x,
        Err(p) => Err(format!("component parser panicked: {}", p.msg)),
    }
}

// C04
// ================================================================================================

fn run_c04() -> Outcome {
    let _threads = sched::begin(true);
    let inst = draw_instance(&TINY);
    stats::sig(inst.class_sig());
    with_coin_hasher!(inst.combo, H, B => c04::<B, H>(&inst))
}

fn c04<B, H>(inst: &Instance) -> Outcome
where
    B: StarkField + ExtensibleField<2> + ExtensibleField<3> + 'static,
    H: ElementHasher<BaseField = B> + Sync + Send,
{
    let Some(h) = honest::<B, H>(inst) else { return Ok(()) };
    let ds = digest_size::<H>();
    let elem_bytes = B::ELEMENT_BYTES * inst.opts.extension as usize;
    // the harness's picture of the wire format must agree with the library on honest proofs
    match Img::parse(&h.bytes, ds) {
        Some(img) if img.encode() == h.bytes => {},
        _ => simcore::harness_error(&format!("wire model does not re-encode an honest proof: {}", inst.describe())),
    }
    let original = match parsed_contents_dyn::<B, H>(&h.proof) {
        Ok(p) => p,
        Err(e) => simcore::harness_error(&format!("cannot parse an honest proof: {e}: {}", inst.describe())),
    };
    let honest_opts = h.proof.options().clone();
    // the honest query positions, from the prover's recorded transcript
    let honest_positions = crate::protocol::history(crate::protocol::PROVER).iter().rev().find_map(|e| match e {
        CoinEvent::DrawInts(_, _, _, v) => Some(v.clone()),
        _ => None,
    });
    let mutations = 24;
    let mix_mode = tape::f("c04.swarm", 4);
    stats::sample(|| format!("{{\"instance\":{},\"proof_bytes\":{},\"mutations\":{mutations}}}", inst.describe(), h.bytes.len()));
    for m in 0..mutations {
        let (bytes, words) = sim_link(&h.bytes, ds, elem_bytes, mix_mode);
        stats::count("steps.mutations", 1);
        if bytes == h.bytes {
            stats::count("steps.mutation_was_identity", 1);
            continue;
        }
        let decoded = match guard(|| Proof::from_bytes(&bytes)) {
            Ok(Ok(p)) => p,
            Ok(Err(_)) => {
                stats::count("outcome.decode_error", 1);
                continue;
            },
            // panics are C05's concern
            Err(p) => {
                stats::count("outcome.decode_panic", 1);
                stats::count(&format!("decode_panic_site.{}", p.site()), 1);
                continue;
            },
        };
        let policy_idx = tape::f("c04.policy", 3);
        let policy = match policy_idx {
            0 => AcceptableOptions::OptionSet(vec![honest_opts.clone()]),
            1 => AcceptableOptions::OptionSet(vec![decoded.options().clone()]),
            _ => AcceptableOptions::MinConjecturedSecurity(0),
        };
        let vh_before = crate::protocol::history(VERIFIER).len();
        match verify_with::<B, H>(decoded.clone(), &h.inputs, &policy) {
            Ok(Ok(())) => {},
            Ok(Err(_)) => {
                stats::count("outcome.rejected", 1);
                continue;
            },
            Err(p) => {
                stats::count("outcome.verify_panic", 1);
                stats::count(&format!("verify_panic_site.{}", p.site()), 1);
                continue;
            },
        }
        stats::count("outcome.accepted", 1);
        stats::nontrivial();
        // accepted: the parsed contents must equal the original's
        let verdict = parsed_contents_dyn::<B, H>(&decoded);
        let same = matches!(&verdict, Ok(p) if *p == original);
        if !same {
            let (label, what) = match &verdict {
                Ok(p) => {
                    let i = p.iter().zip(original.iter()).position(|(a, b)| a != b).unwrap_or(0);
                    let name = original.get(i).map(|s| s.split(' ').next().unwrap_or("?")).unwrap_or("?").to_string();
                    (name.clone(), format!("parsed {name} differs"))
                },
                Err(e) => ("component-parse-fails".to_string(), format!("component parse fails ({e})")),
            };
            // A different nonce that passes the grinding check and happens to draw the same set of
            // query positions is accepted by construction of the protocol. For tiny parameter
            // sets that coincidence is likely (one query over a 16-point domain: 1 in 16), so it
            // is judged under its own key; when the coincidence has probability below 2^-40 by
            // the harness's own bound, the plain `nonce` key (never listed) is used.
            let mut label = label;
            if label == "context.trace_meta" {
                // the recorded finding is about zero bytes appended to (or cut from) the end of the
                // metadata only; any other accepted metadata edit keeps the plain, unlisted key
                let (a, b) = (h.proof.trace_info().meta(), decoded.trace_info().meta());
                let (short, long) = if a.len() <= b.len() { (a, b) } else { (b, a) };
                if long.starts_with(short) && long[short.len()..].iter().all(|&x| x == 0) {
                    label = "context.trace_meta-trailing-zeros".to_string();
                }
            }
            if label == "nonce" {
                if let Ok(p) = &verdict {
                    let only_nonce = p.len() == original.len() && p.iter().zip(original.iter()).filter(|(a, b)| a != b).count() == 1;
                    let new_pos = crate::protocol::history(VERIFIER)[vh_before..].iter().rev().find_map(|e| match e {
                        CoinEvent::DrawInts(_, _, _, v) => Some(v.clone()),
                        _ => None,
                    });
                    if let (true, Some(hp), Some(np)) = (only_nonce, honest_positions.as_ref(), new_pos) {
                        let set = |v: &Vec<usize>| v.iter().copied().collect::<std::collections::BTreeSet<_>>();
                        let (hs, ns) = (set(hp), set(&np));
                        let lde = h.proof.lde_domain_size() as f64;
                        let log_p = np.len() as f64 * ((hs.len() as f64).log2() - lde.log2());
                        if hs == ns && log_p >= -40.0 {
                            stats::count("probe.nonce_position_collision_by_chance", 1);
                            label = "nonce-position-collision".to_string();
                        }
                    }
                }
            }
            let key = format!("{label}/{}", policy_name(policy_idx));
            fail!(
                "tampered-proof-accepted-with-different-contents",
                key,
                "mutation #{m} [{}] under policy {}: decodes, verifies, but {what} :: {}",
                words.join("; "),
                policy_name(policy_idx),
                inst.describe()
            );
        }
        stats::count("outcome.accepted_and_parsed_equal", 1);
    }
    regrind::<B, H>(inst, &h, &original)
}

/// The adaptive nonce fault: an attacker who replays the public transcript can search for a second
/// nonce that draws the same set of query positions. With such a nonce nothing else in the proof
/// has to change. Two variants: the substitute fails the proof-of-work check (must be rejected -
/// the only place where the verifier's grinding check is what stands between the edit and
/// acceptance), or passes it (accepted by construction: the recorded nonce-collision finding).
/// Only attempted when the coincidence costs at most 2^10 candidates.
fn regrind<B, H>(inst: &Instance, h: &Honest<B>, original: &[String]) -> Outcome
where
    B: StarkField + ExtensibleField<2> + ExtensibleField<3> + 'static,
    H: ElementHasher<BaseField = B> + Sync + Send,
{
    use crypto::{DefaultRandomCoin, RandomCoin};
    let ph = crate::protocol::history(crate::protocol::PROVER);
    let Some((nq, lde, nonce, honest_pos)) = ph.iter().rev().find_map(|e| match e {
        CoinEvent::DrawInts(n, d, nonce, v) => Some((*n, *d, *nonce, v.clone())),
        _ => None,
    }) else {
        return Ok(());
    };
    let set = |v: &Vec<usize>| v.iter().copied().collect::<std::collections::BTreeSet<_>>();
    let hs = set(&honest_pos);
    let bits = nq as f64 * ((lde as f64).log2() - (hs.len() as f64).log2());
    if bits > 10.0 || tape::f("c04.regrind", 2) == 0 {
        return Ok(());
    }
    // rebuild the coin as it stood before the nonce was merged in: seed elements and reseeds only
    // (draws do not change the seed, and the nonce merge resets the counter)
    let rebuild = || -> Option<DefaultRandomCoin<H>> {
        let mut coin: Option<DefaultRandomCoin<H>> = None;
        for e in ph.iter() {
            match e {
                CoinEvent::New(bytes) => {
                    let mut r = SliceReader::new(bytes);
                    let mut elems = Vec::new();
                    while r.has_more_bytes() {
                        elems.push(B::read_from(&mut r).ok()?);
                    }
                    coin = Some(DefaultRandomCoin::new(&elems));
                },
                CoinEvent::Reseed(d) => coin.as_mut()?.reseed(<H::Digest as Deserializable>::read_from_bytes(d).ok()?),
                CoinEvent::DrawInts(..) => break,
                CoinEvent::Draw(..) => {},
            }
        }
        coin
    };
    // sanity: the rebuilt coin reproduces the honest positions
    match rebuild().map(|mut c| c.draw_integers(nq, lde, nonce)) {
        Some(Ok(v)) if v == honest_pos => {},
        _ => simcore::harness_error(&format!("transcript replay does not reproduce the query positions: {}", inst.describe())),
    }
    let grinding = h.proof.options().grinding_factor();
    let want_pow_failure = grinding > 0 && tape::f("c04.regrind_kind", 2) == 1;
    let start = tape::f("c04.regrind_start", 1 << 16);
    let mut found = None;
    for i in 0..4096u64 {
        let cand = start.wrapping_add(i);
        if cand == nonce {
            continue;
        }
        let Some(mut c) = rebuild() else { break };
        let pow_ok = c.check_leading_zeros(cand) >= grinding;
        if pow_ok == want_pow_failure {
            continue;
        }
        if matches!(c.draw_integers(nq, lde, cand), Ok(v) if set(&v) == hs) {
            found = Some(cand);
            break;
        }
    }
    let Some(cand) = found else {
        stats::count("outcome.regrind_search_exhausted", 1);
        return Ok(());
    };
    let kind = if want_pow_failure { "nonce_regrind_same_positions_without_pow" } else { "nonce_regrind_same_positions_with_pow" };
    stats::count(&format!("fault.{kind}"), 1);
    stats::nontrivial();
    let mut forged = h.proof.clone();
    forged.pow_nonce = cand;
    let Ok(Ok(decoded)) = guard(|| Proof::from_bytes(&forged.to_bytes())) else {
        simcore::harness_error("re-encoded proof with a different nonce does not decode");
    };
    let policy = AcceptableOptions::OptionSet(vec![h.proof.options().clone()]);
    match verify_with::<B, H>(decoded.clone(), &h.inputs, &policy) {
        Ok(Ok(())) => {},
        Ok(Err(_)) | Err(_) => {
            stats::count("outcome.rejected", 1);
            return Ok(());
        },
    }
    stats::count("outcome.accepted", 1);
    let same = matches!(parsed_contents_dyn::<B, H>(&decoded), Ok(p) if p == original);
    if same {
        simcore::harness_error("a proof with a different nonce parses to equal contents");
    }
    if want_pow_failure {
        fail!(
            "tampered-proof-accepted-with-different-contents",
            "nonce-fails-proof-of-work/honest-option-set".to_string(),
            "nonce {nonce} replaced by {cand}, which draws the same query positions but has fewer than {grinding} trailing zero bits: accepted :: {}",
            inst.describe()
        );
    }
    stats::count("probe.nonce_position_collision_by_search", 1);
    fail!(
        "tampered-proof-accepted-with-different-contents",
        "nonce-position-collision/honest-option-set".to_string(),
        "nonce {nonce} replaced by {cand} (found by replaying the public transcript: same query positions {:?}, proof of work satisfied): accepted with a different nonce :: {}",
        honest_pos,
        inst.describe()
    );
}

// C05
// ================================================================================================

fn run_c05_proof() -> Outcome {
    let _threads = sched::begin(true);
    let inst = draw_instance(&TINY);
    stats::sig(inst.class_sig());
    with_coin_hasher!(inst.combo, H, B => c05_proof::<B, H>(&inst))
}

fn c05_proof<B, H>(inst: &Instance) -> Outcome
where
    B: StarkField + ExtensibleField<2> + ExtensibleField<3> + 'static,
    H: ElementHasher<BaseField = B> + Sync + Send,
{
    let Some(h) = honest::<B, H>(inst) else { return Ok(()) };
    let ds = digest_size::<H>();
    let elem_bytes = B::ELEMENT_BYTES * inst.opts.extension as usize;
    let honest_opts = h.proof.options().clone();
    let mutations = 24;
    let mut rng = tape::fork(Stream::Faults, "c05.random");
    for m in 0..mutations {
        let (bytes, words) = match tape::weighted(Stream::Faults, "c05.source", &[10, 1, 1]) {
            0 => sim_link(&h.bytes, ds, elem_bytes, [0u64, 2, 2, 3][tape::f("c05.swarm", 4) as usize]),
            1 => {
                // honest prefix followed by noise
                let cut = rng.below(h.bytes.len() as u64) as usize;
                let mut b = h.bytes[..cut].to_vec();
                let extra = rng.below(64) as usize;
                b.extend((0..extra).map(|_| rng.next_u64() as u8));
                stats::count("fault.honest_prefix_plus_noise", 1);
                (b, vec!["honest prefix plus noise".to_string()])
            },
            _ => {
                let len = rng.below(400) as usize;
                stats::count("fault.random_bytes", 1);
                ((0..len).map(|_| rng.next_u64() as u8).collect(), vec!["random bytes".to_string()])
            },
        };
        stats::count("steps.mutations", 1);
        let ctx = |what: &str, msg: &str| format!("{what}: {msg} :: mutation #{m} [{}] of a {}-byte proof :: {}", words.join("; "), h.bytes.len(), inst.describe());
        // decoding runs under a cap tied to the input length: a single request of more than
        // 16 MiB + 64 x input bytes while *decoding* is the oversized allocation the property names
        let cap = decode_cap(bytes.len());
        let slice_result = simcore::alloc::scoped_cap(cap, || guard(|| Proof::from_bytes(&bytes)));
        // the same bytes through the streaming adapter over a chunked stream (fault-free chunking:
        // the stream ends where the bytes end, as a socket or file would)
        let stream_result = simcore::alloc::scoped_cap(cap, || {
            let mut sim = SimReader::new(bytes.clone(), false);
            guard(|| {
                let mut r = ReadAdapter::new(&mut sim);
                Proof::read_from(&mut r)
            })
        });
        match (&slice_result, &stream_result) {
            (_, Err(p)) => fail!("panic", p.site(), "{}", ctx("Proof::read_from(ReadAdapter)", &p.msg)),
            (Ok(Ok(a)), Ok(Ok(b))) if a != b => fail!("streamed-decode-differs-from-slice-decode", "Proof", "{}", ctx("Proof", "different proofs")),
            (Ok(Ok(_)), Ok(Err(e))) => fail!("streamed-decode-differs-from-slice-decode", "Proof", "{}", ctx("Proof", &format!("slice decodes, stream fails with {e}"))),
            _ => {},
        }
        stats::count("steps.decoded_through_read_adapter", 1);
        let decoded = match slice_result {
            Ok(Ok(p)) => p,
            Ok(Err(_)) => {
                stats::count("outcome.decode_error", 1);
                continue;
            },
            Err(p) => fail!("panic", p.site(), "{}", ctx("Proof::from_bytes", &p.msg)),
        };
        stats::nontrivial();
        let level = [0u32, 1, 20, 64, 96, 128][tape::f("c05.level", 6) as usize];
        let policy_idx = tape::f("c05.policy", 4);
        let policy = match policy_idx {
            0 => AcceptableOptions::OptionSet(vec![honest_opts.clone()]),
            1 => AcceptableOptions::OptionSet(vec![decoded.options().clone()]),
            2 => AcceptableOptions::MinConjecturedSecurity(level),
            _ => AcceptableOptions::MinProvenSecurity(level),
        };
        match verify_with::<B, H>(decoded, &h.inputs, &policy) {
            Ok(Ok(())) => stats::count("outcome.accepted", 1),
            Ok(Err(e)) => {
                stats::count("outcome.rejected", 1);
                if matches!(e, verifier::VerifierError::UnsupportedFieldExtension(_)) {
                    stats::probe("probe.proof_claims_an_extension_the_field_does_not_support");
                }
            },
            Err(p) => {
                let pol = ["honest-option-set", "proofs-own-options", "min-conjectured", "min-proven"][policy_idx as usize];
                fail!("panic", p.site(), "{} (policy {pol})", ctx("verify", &p.msg));
            },
        }
    }
    Ok(())
}

fn run_c05_byzantine() -> Outcome {
    let _threads = sched::begin(true);
    let mut inst = draw_instance(&TINY);
    // a short trace and at least as many queries as the LDE domain has points
    inst.log_n = 3 + tape::f("byz.log_n", 2) as u32;
    inst.opts.blowup = inst.opts.blowup.min(1 << (1 + tape::f("byz.log_blowup", 3)));
    let lde = (1usize << inst.log_n) * inst.opts.blowup;
    if lde > 255 {
        return Ok(());
    }
    inst.opts.queries = (lde + tape::f("byz.extra_queries", 64) as usize).min(255);
    stats::sig(inst.class_sig());
    with_coin_hasher!(inst.combo, H, B => c05_byzantine::<B, H>(&inst))
}

fn c05_byzantine<B, H>(inst: &Instance) -> Outcome
where
    B: StarkField + ExtensibleField<2> + ExtensibleField<3> + 'static,
    H: ElementHasher<BaseField = B> + Sync + Send,
{
    crate::protocol::set_lenient_integer_draws(true);
    let h = honest::<B, H>(inst);
    crate::protocol::set_lenient_integer_draws(false);
    // a prover that cannot get through its own pipeline keeps such a proof out
    let Some(h) = h else {
        stats::count("outcome.byzantine_prover_failed", 1);
        return Ok(());
    };
    stats::nontrivial();
    stats::probe("probe.proof_with_at_least_as_many_queries_as_domain_points");
    stats::count("fault.more_queries_than_lde_points", 1);
    let decoded = match guard(|| Proof::from_bytes(&h.bytes)) {
        Ok(Ok(p)) => p,
        Ok(Err(_)) => return Ok(()),
        Err(p) => fail!("panic", p.site(), "Proof::from_bytes on a Byzantine proof: {} :: {}", p.msg, inst.describe()),
    };
    for (name, policy) in [
        ("proofs-own-options", AcceptableOptions::OptionSet(vec![decoded.options().clone()])),
        ("min-conjectured-0", AcceptableOptions::MinConjecturedSecurity(0)),
        ("min-proven-0", AcceptableOptions::MinProvenSecurity(0)),
    ] {
        match verify_with::<B, H>(decoded.clone(), &h.inputs, &policy) {
            Ok(Ok(())) => stats::count("outcome.accepted", 1),
            Ok(Err(_)) => stats::count("outcome.rejected", 1),
            Err(p) => fail!("panic", p.site(), "verify (policy {name}) of a proof with {} queries over an LDE domain of {} points: {} :: {}", inst.opts.queries, h.proof.lde_domain_size(), p.msg, inst.describe()),
        }
    }
    Ok(())
}

/// single-allocation cap while decoding `len` untrusted bytes
fn decode_cap(len: usize) -> usize {
    (16 << 20) + 64 * len
}

fn run_c05_components() -> Outcome {
    let kind = tape::w("comp.kind", 12);
    stats::sig(kind);
    let mut rng = tape::fork(Stream::Faults, "comp.random");
    // source bytes: random, or a damaged honest encoding of the component
    let honest: Vec<u8> = match kind {
        0 => TraceInfo::new_multi_segment(3, 2, 4, 16, vec![1, 2, 3]).to_bytes(),
        1 => ProofOptions::new(27, 8, 3, FieldExtension::Quadratic, 4, 31, air::BatchingMethod::Linear, air::BatchingMethod::Horner).with_partitions(4, 8).to_bytes(),
        2 => Context::new::<F64>(TraceInfo::new(4, 32), ProofOptions::new(27, 8, 3, FieldExtension::None, 4, 31, air::BatchingMethod::Linear, air::BatchingMethod::Linear), 7).to_bytes(),
        3 => Commitments::new::<Blake3_256<F64>>(vec![Blake3_256::<F64>::hash(b"a")], Blake3_256::<F64>::hash(b"b"), vec![Blake3_256::<F64>::hash(b"c")]).to_bytes(),
        4 => Proof::new_dummy().trace_queries[0].to_bytes(),
        5 => Proof::new_dummy().ood_frame.to_bytes(),
        6 => Proof::new_dummy().fri_proof.to_bytes(),
        7 | 8 => {
            let leaves: Vec<_> = (0..8u8).map(|i| Blake3_256::<F64>::hash(&[i])).collect();
            let tree = MerkleTree::<Blake3_256<F64>>::new(leaves).unwrap();
            tree.prove_batch(&[1, 2, 6]).unwrap().1.to_bytes()
        },
        9 => Rp64_256::hash(b"digest").to_bytes(),
        10 => Blake3_192::<F62>::hash(b"digest").to_bytes(),
        _ => F128::new(12345).to_bytes(),
    };
    let bytes: Vec<u8> = match tape::weighted(Stream::Faults, "comp.source", &[4, 2, 2]) {
        0 => {
            let mut b = honest.clone();
            let n = 1 + tape::f("comp.nfaults", 3);
            for _ in 0..n {
                let k = tape::f("comp.byte_kind", crate::wire::BYTE_FAULTS.len() as u64) as usize;
                crate::wire::byte_fault(&mut b, k);
                stats::count(&format!("fault.{}", crate::wire::BYTE_FAULTS[k]), 1);
            }
            b
        },
        1 => {
            let len = rng.below(96) as usize;
            stats::count("fault.random_bytes", 1);
            (0..len).map(|_| rng.next_u64() as u8).collect()
        },
        _ => {
            // random bytes with small values where counts and tags live
            let len = rng.below(64) as usize;
            stats::count("fault.random_small_bytes", 1);
            (0..len).map(|_| [0u8, 1, 2, 3, 4, 8, 16, 32, 64, 0x80, 0xff][rng.below(11) as usize]).collect()
        },
    };
    stats::nontrivial();
    stats::sample(|| format!("{{\"component\":{kind},\"bytes\":\"{}\"}}", hex(&bytes)));
    macro_rules! dec {
        ($t:ty, $name:expr) => {{
            let cap = decode_cap(bytes.len());
            let from_slice = simcore::alloc::scoped_cap(cap, || guard(|| <$t>::read_from_bytes(&bytes).ok().map(|v| v.to_bytes())));
            // and through the streaming adapter over a chunked stream
            let from_stream = simcore::alloc::scoped_cap(cap, || {
                let mut sim = SimReader::new(bytes.clone(), false);
                guard(|| {
                    let mut r = ReadAdapter::new(&mut sim);
                    <$t>::read_from(&mut r).ok().map(|v| v.to_bytes())
                })
            });
            match (from_slice, from_stream) {
                (Err(p), _) => fail!("panic", p.site(), "decoding {} from {}: {}", $name, hex(&bytes), p.msg),
                (_, Err(p)) => fail!("panic", p.site(), "decoding {} through ReadAdapter from {}: {}", $name, hex(&bytes), p.msg),
                (Ok(a), Ok(b)) => {
                    if a != b {
                        fail!("streamed-decode-differs-from-slice-decode", $name, "{} from {}: slice {:?} stream {:?}", $name, hex(&bytes), a.map(|x| hex(&x)), b.map(|x| hex(&x)));
                    }
                    if a.is_some() {
                        stats::count("outcome.decoded", 1)
                    } else {
                        stats::count("outcome.decode_error", 1)
                    }
                },
            }
        }};
    }
    match kind {
        0 => dec!(TraceInfo, "TraceInfo"),
        1 => dec!(ProofOptions, "ProofOptions"),
        2 => dec!(Context, "Context"),
        3 => dec!(Commitments, "Commitments"),
        4 => dec!(Queries, "Queries"),
        5 => dec!(OodFrame, "OodFrame"),
        6 => dec!(FriProof, "FriProof"),
        7 => dec!(BatchMerkleProof<Blake3_256<F64>>, "BatchMerkleProof<Blake3_256>"),
        8 => dec!(BatchMerkleProof<Rp64_256>, "BatchMerkleProof<Rp64_256>"),
        9 => dec!(<Rp64_256 as Hasher>::Digest, "Rp64_256 digest"),
        10 => dec!(<Blake3_192<F62> as Hasher>::Digest, "Blake3_192 digest"),
        _ => {
            dec!(F128, "f128 element");
            dec!(F64, "f64 element");
            dec!(F62, "f62 element");
            dec!(QuadExtension<F64>, "f64^2 element");
            dec!(CubeExtension<F62>, "f62^3 element");
        },
    }
    Ok(())
}

// C07
// ================================================================================================

fn run_c07_proofs() -> Outcome {
    let _threads = sched::begin(true);
    let inst = draw_instance(&TINY);
    stats::sig(inst.class_sig());
    with_coin_hasher!(inst.combo, H, B => c07_proof::<B, H>(&inst))
}

fn c07_proof<B, H>(inst: &Instance) -> Outcome
where
    B: StarkField + ExtensibleField<2> + ExtensibleField<3> + 'static,
    H: ElementHasher<BaseField = B> + Sync + Send,
{
    let Some(h) = honest::<B, H>(inst) else { return Ok(()) };
    stats::nontrivial();
    stats::sample(|| format!("{{\"instance\":{},\"proof_bytes\":{}}}", inst.describe(), h.bytes.len()));
    let ctx = || inst.describe();
    // writer seam
    let mut w = SimWriter::new(false);
    if let Err(p) = guard(|| h.proof.write_into(&mut w)) {
        fail!("panic", p.site(), "writing a proof through a short-writing stream: {} :: {}", p.msg, ctx());
    }
    if w.stored != h.bytes {
        fail!("stream-encoding-differs-from-vec-encoding", "Proof", "{}", ctx());
    }
    // slice reader
    let d1 = match guard(|| {
        let mut r = SliceReader::new(&h.bytes);
        let p = Proof::read_from(&mut r);
        (p, r.has_more_bytes())
    }) {
        Ok((Ok(p), false)) => p,
        Ok((Ok(_), true)) => fail!("bytes-left-over", "Proof/SliceReader", "{}", ctx()),
        Ok((Err(e), _)) => fail!("decode-error-on-own-encoding", "Proof/SliceReader", "{e} :: {}", ctx()),
        Err(p) => fail!("panic", p.site(), "decoding an honest proof: {} :: {}", p.msg, ctx()),
    };
    if d1 != h.proof {
        fail!("decoded-proof-differs", "Proof/SliceReader", "{}", ctx());
    }
    if d1.to_bytes() != h.bytes {
        fail!("re-encoding-differs", "Proof", "{}", ctx());
    }
    // chunked stream
    let mut sim = SimReader::new(h.bytes.clone(), false);
    let d2 = match guard(|| {
        let mut r = ReadAdapter::new(&mut sim);
        let p = Proof::read_from(&mut r);
        let more = r.has_more_bytes();
        (p, more)
    }) {
        Ok((Ok(p), false)) => p,
        Ok((Ok(_), true)) => fail!("bytes-left-over", "Proof/ReadAdapter", "{}", ctx()),
        Ok((Err(e), _)) => fail!("decode-error-on-own-encoding", "Proof/ReadAdapter", "{e} :: {}", ctx()),
        Err(p) => fail!("panic", p.site(), "decoding an honest proof from a chunked stream: {} :: {}", p.msg, ctx()),
    };
    if d2 != h.proof {
        fail!("decoded-proof-differs", "Proof/ReadAdapter", "{}", ctx());
    }
    // same verdict: in-memory proof vs decoded proof, for the true statement and for a false one
    let policy = AcceptableOptions::OptionSet(vec![h.proof.options().clone()]);
    let mut false_inputs = h.inputs.clone();
    let i = tape::w("c07.skew", false_inputs.values.len() as u64) as usize;
    false_inputs.values[i] += B::ONE;
    for (inputs, want) in [(&h.inputs, true), (&false_inputs, false)] {
        let a = verify_with::<B, H>(h.proof.clone(), inputs, &policy);
        let b = verify_with::<B, H>(d2.clone(), inputs, &policy);
        let va = matches!(a, Ok(Ok(())));
        let vb = matches!(b, Ok(Ok(())));
        if va != vb {
            fail!("verdict-differs-after-round-trip", if want { "true-statement" } else { "false-statement" }, "in-memory {va}, decoded {vb} :: {}", ctx());
        }
        stats::count(if va { "outcome.accepted" } else { "outcome.rejected" }, 1);
    }
    Ok(())
}

fn opt_corner(rng: &mut Rng) -> ProofOptions {
    let pick = |rng: &mut Rng, v: &[usize]| v[rng.below(v.len() as u64) as usize];
    let queries = { let r1 = rng.below(255); pick(rng, &[1, 2, 127, 128, 254, 255, 1 + r1 as usize]) };
    let blowup = 1usize << (1 + rng.below(7));
    let grinding = { let r2 = rng.below(33); pick(rng, &[0, 1, 16, 31, 32, r2 as usize]) } as u32;
    let ext = [FieldExtension::None, FieldExtension::Quadratic, FieldExtension::Cubic][rng.below(3) as usize];
    let folding = 1usize << (1 + rng.below(4));
    let remainder = (1usize << rng.below(9)) - 1;
    let bm = |rng: &mut Rng| [air::BatchingMethod::Linear, air::BatchingMethod::Algebraic, air::BatchingMethod::Horner][rng.below(3) as usize];
    let (b1, b2) = (bm(rng), bm(rng));
    let parts = { let r3 = rng.below(16); pick(rng, &[1, 2, 15, 16, 1 + r3 as usize]) };
    let rate = { let r4 = rng.below(256); pick(rng, &[1, 2, 8, 254, 255, 1 + (r4 % 255) as usize]) };
    ProofOptions::new(queries, blowup, grinding, ext, folding, remainder, b1, b2).with_partitions(parts, rate)
}

fn info_corner(rng: &mut Rng) -> TraceInfo {
    let pick = |rng: &mut Rng, v: &[usize]| v[rng.below(v.len() as u64) as usize];
    let aux = { let r1 = rng.below(100); pick(rng, &[0, 0, 1, 2, 254, 1 + r1 as usize]) };
    let main_max = 255 - aux;
    let main = { let r2 = rng.below(main_max as u64); pick(rng, &[1, 2, main_max, main_max.saturating_sub(1).max(1), 1 + r2 as usize]) }.min(main_max).max(1);
    let rands = if aux == 0 { 0 } else { { let r3 = rng.below(256); pick(rng, &[0, 1, 255, 254, r3 as usize]) } };
    let log_len = { let r4 = rng.below(30); pick(rng, &[3, 4, 20, 31, 32, 3 + r4 as usize]) };
    let meta_len = { let r5 = rng.below(300); pick(rng, &[0, 1, 2, 65534, 65535, r5 as usize]) };
    let meta: Vec<u8> = (0..meta_len).map(|i| (i as u8).wrapping_mul(3)).collect();
    TraceInfo::new_multi_segment(main, aux, rands, 1usize << log_len, meta)
}

fn run_c07_components() -> Outcome {
    let kind = tape::w("comp.kind", 9);
    stats::sig(kind);
    let mut rng = tape::fork(Stream::Workload, "comp.values");
    stats::nontrivial();
    macro_rules! rt {
        ($name:expr, $ty:ty, $value:expr, $eq:expr) => {{
            let v = $value;
            let bytes = match guard(|| v.to_bytes()) {
                Ok(b) => b,
                Err(p) => fail!("panic", p.site(), "encoding a constructor-accepted {}: {}", $name, p.msg),
            };
            let r = guard(|| {
                let mut rd = SliceReader::new(&bytes);
                let d = <$ty>::read_from(&mut rd);
                (d, rd.has_more_bytes())
            });
            match r {
                Ok((Ok(d), more)) => {
                    #[allow(clippy::redundant_closure_call)]
                    let same: bool = ($eq)(&d, &v);
                    if !same {
                        fail!("decoded-value-differs", $name, "{}: encoding {}", $name, hex(&bytes));
                    }
                    if more {
                        fail!("bytes-left-over", $name, "{}", hex(&bytes));
                    }
                    if d.to_bytes() != bytes {
                        fail!("re-encoding-differs", $name, "{}", hex(&bytes));
                    }
                },
                Ok((Err(e), _)) => fail!("decode-error-on-own-encoding", $name, "{e}: a {} built through its public constructor; encoding {}", $name, hex(&bytes)),
                Err(p) => fail!("panic", p.site(), "decoding the encoding of a constructor-accepted {} ({}): {}", $name, hex(&bytes), p.msg),
            }
        }};
    }
    match kind {
        0 => {
            let v = info_corner(&mut rng);
            stats::sample(|| format!("{{\"TraceInfo\":\"main {} aux {} rands {} len {} meta {}\"}}", v.main_trace_width(), v.aux_segment_width(), v.get_num_aux_segment_rand_elements(), v.length(), v.meta().len()));
            rt!("TraceInfo", TraceInfo, v, |a: &TraceInfo, b: &TraceInfo| a == b)
        },
        1 => {
            let v = opt_corner(&mut rng);
            stats::sample(|| format!("{{\"ProofOptions\":\"{v:?}\"}}").replace('\\', ""));
            rt!("ProofOptions", ProofOptions, v, |a: &ProofOptions, b: &ProofOptions| a == b)
        },
        2 => {
            let info = info_corner(&mut rng);
            let opts = opt_corner(&mut rng);
            if (info.length() as u64) * (opts.blowup_factor() as u64) > u32::MAX as u64 {
                return Ok(());
            }
            let nc = [1usize, 2, 255, 256, 65536, u32::MAX as usize][rng.below(6) as usize];
            let v = match rng.below(3) {
                0 => Context::new::<F62>(info, opts, nc),
                1 => Context::new::<F64>(info, opts, nc),
                _ => Context::new::<F128>(info, opts, nc),
            };
            rt!("Context", Context, v, |a: &Context, b: &Context| a == b)
        },
        3 => {
            // up to 64 FRI roots (protocol-reachable sizes)
            let nt = 1 + rng.below(2) as usize;
            let nf = 1 + rng.below(64) as usize;
            macro_rules! commitments {
                ($H:ty) => {{
                    let d = |i: usize| <$H>::hash(&(i as u64).to_le_bytes());
                    Commitments::new::<$H>((0..nt).map(d).collect(), d(99), (0..nf).map(|i| d(100 + i)).collect())
                }};
            }
            let v = match rng.below(3) {
                0 => commitments!(Blake3_256<F64>),
                1 => commitments!(Blake3_192<F64>),
                _ => commitments!(Rp64_256),
            };
            rt!("Commitments", Commitments, v, |a: &Commitments, b: &Commitments| a == b)
        },
        4 | 5 => {
            // queries and batch Merkle proofs
            let logn = 1 + rng.below(9) as usize;
            let n = 1usize << logn;
            let nidx = 1 + rng.below(n.min(255) as u64) as usize;
            let mut idx: Vec<usize> = Vec::new();
            while idx.len() < nidx {
                let i = rng.below(n as u64) as usize;
                if !idx.contains(&i) {
                    idx.push(i);
                }
            }
            macro_rules! with_tree {
                ($H:ty) => {{
                    let leaves: Vec<_> = (0..n).map(|i| <$H>::hash(&(i as u64).to_le_bytes())).collect();
                    let tree = MerkleTree::<$H>::new(leaves).expect("tree");
                    let (_, proof) = tree.prove_batch(&idx).expect("prove");
                    if kind == 4 {
                        let width = 1 + rng.below(12) as usize;
                        let values: Vec<Vec<F64>> = (0..nidx).map(|r| (0..width).map(|c| F64::new((r * 1000 + c) as u64)).collect()).collect();
                        let q = Queries::new::<$H, F64, MerkleTree<$H>>(proof, values);
                        rt!("Queries", Queries, q, |a: &Queries, b: &Queries| a == b)
                    } else {
                        rt!("BatchMerkleProof", BatchMerkleProof<$H>, proof, |a: &BatchMerkleProof<$H>, b: &BatchMerkleProof<$H>| a.depth == b.depth && a.nodes == b.nodes)
                    }
                }};
            }
            match rng.below(3) {
                0 => with_tree!(Blake3_256<F64>),
                1 => with_tree!(Blake3_192<F64>),
                _ => with_tree!(Rp64_256),
            }
        },
        6 => {
            // digests of every hasher
            macro_rules! dg {
                ($H:ty, $name:expr) => {{
                    let d = <$H>::hash(&rng.next_u64().to_le_bytes());
                    rt!($name, <$H as Hasher>::Digest, d, |a: &<$H as Hasher>::Digest, b: &<$H as Hasher>::Digest| a == b)
                }};
            }
            match rng.below(6) {
                0 => dg!(Blake3_256<F128>, "Blake3_256 digest"),
                1 => dg!(Blake3_192<F64>, "Blake3_192 digest"),
                2 => dg!(Sha3_256<F62>, "Sha3_256 digest"),
                3 => dg!(Rp64_256, "Rp64_256 digest"),
                4 => dg!(RpJive64_256, "RpJive64_256 digest"),
                _ => dg!(Rp62_248, "Rp62_248 digest"),
            }
        },
        7 => {
            let v = Proof::new_dummy();
            rt!("dummy Proof", Proof, v, |a: &Proof, b: &Proof| a == b)
        },
        _ => {
            // OodFrame and FriProof values are only constructible through the prover; they are
            // covered by the proof round trip. Here: their default / dummy values.
            let v = OodFrame::default();
            rt!("OodFrame", OodFrame, v, |a: &OodFrame, b: &OodFrame| a == b);
            let f = FriProof::new_dummy();
            rt!("FriProof", FriProof, f, |a: &FriProof, b: &FriProof| a == b)
        },
    }
    let _ = COIN_NAMES;
    Ok(())
}
