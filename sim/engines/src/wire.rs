//! Harness-side model of the proof wire format (an independent walker / encoder, cross-checked
//! against the library by re-encoding every honest proof), and the transport seam `SimLink`:
//! byte-level faults (bit rot, truncation, lost / duplicated / reordered spans) and
//! structure-aware field edits, including coordinated multi-site edits.

use simcore::{
    stats,
    tape::{self, Stream},
};

// VINT (the size-value encoding)
// ================================================================================================

pub fn vint_encode(v: u64, out: &mut Vec<u8>) {
    let bits = 64 - v.leading_zeros() as usize;
    let len = if bits <= 7 { 1 } else if bits > 56 { 9 } else { bits.div_ceil(7) };
    if len == 9 {
        out.push(0);
        out.extend_from_slice(&v.to_le_bytes());
    } else {
        let enc = (((v << 1) | 1) << (len - 1)).to_le_bytes();
        out.extend_from_slice(&enc[..len]);
    }
}

struct Rd<'a> {
    b: &'a [u8],
    p: usize,
}

impl<'a> Rd<'a> {
    fn u8(&mut self) -> Option<u8> {
        let v = *self.b.get(self.p)?;
        self.p += 1;
        Some(v)
    }
    fn u16(&mut self) -> Option<u16> {
        let s = self.take(2)?;
        Some(u16::from_le_bytes([s[0], s[1]]))
    }
    fn u32(&mut self) -> Option<u32> {
        let s = self.take(4)?;
        Some(u32::from_le_bytes([s[0], s[1], s[2], s[3]]))
    }
    fn u64(&mut self) -> Option<u64> {
        let s = self.take(8)?;
        Some(u64::from_le_bytes(s.try_into().ok()?))
    }
    fn take(&mut self, n: usize) -> Option<&'a [u8]> {
        let s = self.b.get(self.p..self.p.checked_add(n)?)?;
        self.p += n;
        Some(s)
    }
    fn vint(&mut self) -> Option<u64> {
        let first = *self.b.get(self.p)?;
        let len = first.trailing_zeros() as usize + 1;
        if len == 9 {
            self.p += 1;
            self.u64()
        } else {
            let s = self.take(len)?;
            let mut e = [0u8; 8];
            e[..len].copy_from_slice(s);
            Some(u64::from_le_bytes(e) >> len)
        }
    }
}

// IMAGE OF A PROOF
// ================================================================================================

#[derive(Clone, Debug, PartialEq)]
pub struct MerkleImg {
    pub depth: u8,
    pub nvec: u64,
    /// (declared count, digests)
    pub vecs: Vec<(u64, Vec<Vec<u8>>)>,
}

#[derive(Clone, Debug, PartialEq)]
pub struct QueriesImg {
    pub values_len: u64,
    pub values: Vec<u8>,
    pub proof_len: u64,
    pub proof: MerkleImg,
}

#[derive(Clone, Debug, PartialEq)]
pub struct LayerImg {
    pub values_len: u32,
    pub values: Vec<u8>,
    pub paths_len: u32,
    pub paths: MerkleImg,
}

#[derive(Clone, Debug, PartialEq)]
pub struct Img {
    pub main_width: u8,
    pub aux_width: u8,
    pub num_rands: u8,
    pub log_len: u8,
    pub meta_len: u16,
    pub meta: Vec<u8>,
    pub modulus_len: u8,
    pub modulus: Vec<u8>,
    /// queries, blowup, grinding, extension, folding, remainder degree, batching x2, partitions, hash rate
    pub opts: [u8; 10],
    pub num_constraints: u64,
    pub num_unique_queries: u8,
    pub commitments_len: u16,
    pub commitments: Vec<u8>,
    pub trace_queries: Vec<QueriesImg>,
    pub constraint_queries: QueriesImg,
    pub ood_trace_len: u16,
    pub ood_trace: Vec<u8>,
    pub ood_quot_len: u16,
    pub ood_quot: Vec<u8>,
    pub fri_num_layers: u8,
    pub fri_layers: Vec<LayerImg>,
    pub remainder_len: u16,
    pub remainder: Vec<u8>,
    pub fri_partitions: u8,
    pub pow_nonce: u64,
    pub digest_size: usize,
}

fn merkle_parse(r: &mut Rd, ds: usize) -> Option<MerkleImg> {
    let depth = r.u8()?;
    let nvec = r.vint()?;
    let mut vecs = Vec::new();
    for _ in 0..nvec {
        let count = r.vint()?;
        let mut d = Vec::new();
        for _ in 0..count {
            d.push(r.take(ds)?.to_vec());
        }
        vecs.push((count, d));
    }
    Some(MerkleImg { depth, nvec, vecs })
}

fn merkle_encode(m: &MerkleImg, out: &mut Vec<u8>) {
    out.push(m.depth);
    vint_encode(m.nvec, out);
    for (count, ds) in m.vecs.iter() {
        vint_encode(*count, out);
        for d in ds {
            out.extend_from_slice(d);
        }
    }
}

fn merkle_len(m: &MerkleImg) -> usize {
    let mut v = Vec::new();
    merkle_encode(m, &mut v);
    v.len()
}

fn queries_parse(r: &mut Rd, ds: usize) -> Option<QueriesImg> {
    let values_len = r.vint()?;
    let values = r.take(values_len as usize)?.to_vec();
    let proof_len = r.vint()?;
    let pbytes = r.take(proof_len as usize)?;
    let mut pr = Rd { b: pbytes, p: 0 };
    let proof = merkle_parse(&mut pr, ds)?;
    if pr.p != pbytes.len() {
        return None;
    }
    Some(QueriesImg { values_len, values, proof_len, proof })
}

fn queries_encode(q: &QueriesImg, out: &mut Vec<u8>) {
    vint_encode(q.values_len, out);
    out.extend_from_slice(&q.values);
    vint_encode(q.proof_len, out);
    merkle_encode(&q.proof, out);
}

impl Img {
    /// walks an (honest) proof encoding; `None` if it does not have the documented layout
    pub fn parse(bytes: &[u8], digest_size: usize) -> Option<Img> {
        let mut r = Rd { b: bytes, p: 0 };
        let main_width = r.u8()?;
        let aux_width = r.u8()?;
        let num_rands = r.u8()?;
        let log_len = r.u8()?;
        let meta_len = r.u16()?;
        let meta = r.take(meta_len as usize)?.to_vec();
        let modulus_len = r.u8()?;
        let modulus = r.take(modulus_len as usize)?.to_vec();
        let opts: [u8; 10] = r.take(10)?.try_into().ok()?;
        let num_constraints = r.vint()?;
        let num_unique_queries = r.u8()?;
        let commitments_len = r.u16()?;
        let commitments = r.take(commitments_len as usize)?.to_vec();
        let nseg = if aux_width > 0 { 2 } else { 1 };
        let mut trace_queries = Vec::new();
        for _ in 0..nseg {
            trace_queries.push(queries_parse(&mut r, digest_size)?);
        }
        let constraint_queries = queries_parse(&mut r, digest_size)?;
        let ood_trace_len = r.u16()?;
        let ood_trace = r.take(ood_trace_len as usize)?.to_vec();
        let ood_quot_len = r.u16()?;
        let ood_quot = r.take(ood_quot_len as usize)?.to_vec();
        let fri_num_layers = r.u8()?;
        let mut fri_layers = Vec::new();
        for _ in 0..fri_num_layers {
            let values_len = r.u32()?;
            let values = r.take(values_len as usize)?.to_vec();
            let paths_len = r.u32()?;
            let pbytes = r.take(paths_len as usize)?;
            let mut pr = Rd { b: pbytes, p: 0 };
            let paths = merkle_parse(&mut pr, digest_size)?;
            if pr.p != pbytes.len() {
                return None;
            }
            fri_layers.push(LayerImg { values_len, values, paths_len, paths });
        }
        let remainder_len = r.u16()?;
        let remainder = r.take(remainder_len as usize)?.to_vec();
        let fri_partitions = r.u8()?;
        let pow_nonce = r.u64()?;
        if r.p != bytes.len() {
            return None;
        }
        Some(Img {
            main_width,
            aux_width,
            num_rands,
            log_len,
            meta_len,
            meta,
            modulus_len,
            modulus,
            opts,
            num_constraints,
            num_unique_queries,
            commitments_len,
            commitments,
            trace_queries,
            constraint_queries,
            ood_trace_len,
            ood_trace,
            ood_quot_len,
            ood_quot,
            fri_num_layers,
            fri_layers,
            remainder_len,
            remainder,
            fri_partitions,
            pow_nonce,
            digest_size,
        })
    }

    pub fn encode(&self) -> Vec<u8> {
        let mut o = Vec::new();
        o.extend_from_slice(&[self.main_width, self.aux_width, self.num_rands, self.log_len]);
        o.extend_from_slice(&self.meta_len.to_le_bytes());
        o.extend_from_slice(&self.meta);
        o.push(self.modulus_len);
        o.extend_from_slice(&self.modulus);
        o.extend_from_slice(&self.opts);
        vint_encode(self.num_constraints, &mut o);
        o.push(self.num_unique_queries);
        o.extend_from_slice(&self.commitments_len.to_le_bytes());
        o.extend_from_slice(&self.commitments);
        for q in self.trace_queries.iter() {
            queries_encode(q, &mut o);
        }
        queries_encode(&self.constraint_queries, &mut o);
        o.extend_from_slice(&self.ood_trace_len.to_le_bytes());
        o.extend_from_slice(&self.ood_trace);
        o.extend_from_slice(&self.ood_quot_len.to_le_bytes());
        o.extend_from_slice(&self.ood_quot);
        o.push(self.fri_num_layers);
        for l in self.fri_layers.iter() {
            o.extend_from_slice(&l.values_len.to_le_bytes());
            o.extend_from_slice(&l.values);
            o.extend_from_slice(&l.paths_len.to_le_bytes());
            merkle_encode(&l.paths, &mut o);
        }
        o.extend_from_slice(&self.remainder_len.to_le_bytes());
        o.extend_from_slice(&self.remainder);
        o.push(self.fri_partitions);
        o.extend_from_slice(&self.pow_nonce.to_le_bytes());
        o
    }

    /// recomputes every length / count field from the content it describes
    pub fn fix_lengths(&mut self) {
        self.meta_len = self.meta.len() as u16;
        self.modulus_len = self.modulus.len() as u8;
        self.commitments_len = self.commitments.len() as u16;
        let fixm = |m: &mut MerkleImg| {
            m.nvec = m.vecs.len() as u64;
            for v in m.vecs.iter_mut() {
                v.0 = v.1.len() as u64;
            }
        };
        for q in self.trace_queries.iter_mut().chain(std::iter::once(&mut self.constraint_queries)) {
            fixm(&mut q.proof);
            q.values_len = q.values.len() as u64;
            q.proof_len = merkle_len(&q.proof) as u64;
        }
        self.ood_trace_len = self.ood_trace.len() as u16;
        self.ood_quot_len = self.ood_quot.len() as u16;
        self.fri_num_layers = self.fri_layers.len() as u8;
        for l in self.fri_layers.iter_mut() {
            fixm(&mut l.paths);
            l.values_len = l.values.len() as u32;
            l.paths_len = merkle_len(&l.paths) as u32;
        }
        self.remainder_len = self.remainder.len() as u16;
    }
}

// FAULTS
// ================================================================================================

pub const BYTE_FAULTS: [&str; 9] =
    ["bit_flip", "byte_set", "truncate", "extend", "insert_span", "delete_span", "duplicate_span", "swap_spans", "zero_span"];

/// one byte-level fault at a tape-chosen place inside the content
pub fn byte_fault(bytes: &mut Vec<u8>, kind: usize) -> String {
    let n = bytes.len().max(1);
    let pos = tape::f("link.pos", n as u64) as usize;
    let span = 1 + tape::f("link.span", 40) as usize;
    let end = (pos + span).min(bytes.len());
    match kind {
        0 => {
            if !bytes.is_empty() {
                bytes[pos] ^= 1 << tape::f("link.bit", 8);
            }
            format!("bit flip at byte {pos}")
        },
        1 => {
            if !bytes.is_empty() {
                bytes[pos] = [0u8, 1, 2, 0x7f, 0x80, 0xff][tape::f("link.val", 6) as usize];
            }
            format!("byte {pos} set")
        },
        2 => {
            bytes.truncate(pos);
            format!("truncated to {pos} bytes")
        },
        3 => {
            let extra = 1 + tape::f("link.extra", 64) as usize;
            let fill = [0u8, 0xff, 0x5a][tape::f("link.fill", 3) as usize];
            bytes.extend(std::iter::repeat(fill).take(extra));
            format!("{extra} bytes appended")
        },
        4 => {
            let fill = [0u8, 0xff, 0x5a][tape::f("link.fill", 3) as usize];
            for _ in 0..span {
                bytes.insert(pos.min(bytes.len()), fill);
            }
            format!("{span} bytes inserted at {pos}")
        },
        5 => {
            let start = pos.min(bytes.len());
            bytes.drain(start..end);
            format!("bytes {pos}..{end} lost")
        },
        6 => {
            let dup: Vec<u8> = bytes[pos.min(bytes.len())..end].to_vec();
            let at = end;
            for (i, b) in dup.iter().enumerate() {
                bytes.insert(at + i, *b);
            }
            format!("bytes {pos}..{end} delivered twice")
        },
        7 => {
            let pos2 = tape::f("link.pos2", n as u64) as usize;
            let end2 = (pos2 + span).min(bytes.len());
            if end <= pos2 && end2 - pos2 == end - pos {
                for i in 0..(end - pos) {
                    bytes.swap(pos + i, pos2 + i);
                }
            } else if end2 <= pos && end2 - pos2 == end - pos {
                for i in 0..(end - pos) {
                    bytes.swap(pos + i, pos2 + i);
                }
            }
            format!("spans at {pos} and {pos2} reordered")
        },
        _ => {
            let start = pos.min(bytes.len());
            for b in bytes[start..end].iter_mut() {
                *b = 0;
            }
            format!("bytes {pos}..{end} zeroed")
        },
    }
}

pub const FIELD_FAULTS: [&str; 34] = [
    "main_width", "aux_width", "num_rands", "log_len", "meta_len", "meta_byte", "modulus_len", "modulus_byte",
    "opt_queries", "opt_blowup", "opt_grinding", "opt_extension", "opt_folding", "opt_remainder", "opt_batching",
    "opt_partitions", "opt_hash_rate", "num_constraints", "num_unique_queries", "commitments_len", "commitment_digest",
    "queries_values_len", "queries_value_byte", "queries_proof_len", "merkle_depth", "merkle_nvec", "merkle_count",
    "merkle_digest", "ood_len", "ood_byte", "fri_num_layers", "fri_layer_len", "remainder_len_or_byte", "fri_partitions_or_nonce",
];

fn interesting_u8(old: u8) -> u8 {
    let c = [0u8, 1, 2, 3, 7, 8, 16, 63, 64, 65, 127, 128, 254, 255, old.wrapping_add(1), old.wrapping_sub(1), old ^ 0x80];
    c[tape::f("edit.u8", c.len() as u64) as usize]
}

fn pick_merkle<'a>(img: &'a mut Img) -> &'a mut MerkleImg {
    let n = img.trace_queries.len() + 1 + img.fri_layers.len();
    let k = tape::f("edit.which_merkle", n as u64) as usize;
    if k < img.trace_queries.len() {
        &mut img.trace_queries[k].proof
    } else if k == img.trace_queries.len() {
        &mut img.constraint_queries.proof
    } else {
        &mut img.fri_layers[k - img.trace_queries.len() - 1].paths
    }
}

fn pick_queries<'a>(img: &'a mut Img) -> &'a mut QueriesImg {
    let n = img.trace_queries.len() + 1;
    let k = tape::f("edit.which_queries", n as u64) as usize;
    if k < img.trace_queries.len() {
        &mut img.trace_queries[k]
    } else {
        &mut img.constraint_queries
    }
}

fn flip_in(v: &mut [u8]) {
    if !v.is_empty() {
        let p = tape::f("edit.pos", v.len() as u64) as usize;
        v[p] ^= 1 << tape::f("edit.bit", 8);
    }
}

/// one single-field edit (length fields are NOT re-synchronised: the edit is what travels)
pub fn field_fault(img: &mut Img, kind: usize) -> &'static str {
    match kind {
        0 => img.main_width = interesting_u8(img.main_width),
        1 => img.aux_width = interesting_u8(img.aux_width),
        2 => img.num_rands = interesting_u8(img.num_rands),
        3 => img.log_len = interesting_u8(img.log_len),
        4 => img.meta_len = [0u16, 1, img.meta_len.wrapping_add(1), img.meta_len.wrapping_sub(1), 0xffff][tape::f("edit.u16", 5) as usize],
        5 => flip_in(&mut img.meta),
        6 => img.modulus_len = interesting_u8(img.modulus_len),
        7 => match tape::f("edit.modulus_kind", 4) {
            // an all-zero modulus (zero significant bits), a modulus of 1 or 2 (one or two bits):
            // the values the security estimate is computed from are attacker-chosen
            0 => img.modulus.iter_mut().for_each(|b| *b = 0),
            1 => {
                img.modulus.iter_mut().for_each(|b| *b = 0);
                if let Some(b) = img.modulus.first_mut() {
                    *b = 1 + tape::f("edit.modulus_small", 3) as u8;
                }
            },
            _ => flip_in(&mut img.modulus),
        },
        8..=13 => {
            let i = kind - 8;
            img.opts[i] = interesting_u8(img.opts[i]);
        },
        14 => {
            let i = 6 + tape::f("edit.which_batching", 2) as usize;
            img.opts[i] = interesting_u8(img.opts[i]);
        },
        15 => img.opts[8] = interesting_u8(img.opts[8]),
        16 => img.opts[9] = interesting_u8(img.opts[9]),
        17 => {
            img.num_constraints = [0u64, 1, img.num_constraints.wrapping_add(1), img.num_constraints.wrapping_sub(1), 1 << 32, u64::MAX, img.num_constraints.wrapping_add(1 << 32)]
                [tape::f("edit.u64", 7) as usize]
        },
        18 => img.num_unique_queries = interesting_u8(img.num_unique_queries),
        19 => {
            let ds = img.digest_size as u16;
            img.commitments_len = [0u16, img.commitments_len.wrapping_add(1), img.commitments_len.wrapping_sub(1), img.commitments_len.wrapping_add(ds), img.commitments_len.wrapping_sub(ds), 0xffff]
                [tape::f("edit.u16", 6) as usize]
        },
        20 => flip_in(&mut img.commitments),
        21 => {
            let q = pick_queries(img);
            q.values_len = [0u64, q.values_len.wrapping_add(1), q.values_len.wrapping_sub(1), 1 << 32, u64::MAX, 1 << 56][tape::f("edit.u64", 6) as usize];
        },
        22 => flip_in(&mut pick_queries(img).values),
        23 => {
            let q = pick_queries(img);
            q.proof_len = [0u64, q.proof_len.wrapping_add(1), q.proof_len.wrapping_sub(1), 1 << 32, u64::MAX][tape::f("edit.u64", 5) as usize];
        },
        24 => {
            let m = pick_merkle(img);
            m.depth = interesting_u8(m.depth);
        },
        25 => {
            let m = pick_merkle(img);
            m.nvec = [0u64, m.nvec.wrapping_add(1), m.nvec.wrapping_sub(1), 1 << 20, 1 << 40, u64::MAX][tape::f("edit.u64", 6) as usize];
        },
        26 => {
            let m = pick_merkle(img);
            if !m.vecs.is_empty() {
                let i = tape::f("edit.vec", m.vecs.len() as u64) as usize;
                let c = m.vecs[i].0;
                m.vecs[i].0 = [0u64, c.wrapping_add(1), c.wrapping_sub(1), 1 << 20, 1 << 58, u64::MAX][tape::f("edit.u64", 6) as usize];
            }
        },
        27 => {
            let m = pick_merkle(img);
            let nonempty: Vec<usize> = (0..m.vecs.len()).filter(|&i| !m.vecs[i].1.is_empty()).collect();
            if !nonempty.is_empty() {
                let i = nonempty[tape::f("edit.vec", nonempty.len() as u64) as usize];
                let j = tape::f("edit.node", m.vecs[i].1.len() as u64) as usize;
                flip_in(&mut m.vecs[i].1[j]);
            }
        },
        28 => {
            if tape::f("edit.which_ood", 2) == 0 {
                img.ood_trace_len = [0u16, 1, img.ood_trace_len.wrapping_add(1), img.ood_trace_len.wrapping_sub(1), 0xffff][tape::f("edit.u16", 5) as usize];
            } else {
                img.ood_quot_len = [0u16, 1, img.ood_quot_len.wrapping_add(1), img.ood_quot_len.wrapping_sub(1), 0xffff][tape::f("edit.u16", 5) as usize];
            }
        },
        29 => {
            if tape::f("edit.which_ood", 2) == 0 {
                // the first byte is the frame-size tag
                if tape::f("edit.ood_tag", 3) == 0 && !img.ood_trace.is_empty() {
                    img.ood_trace[0] = interesting_u8(img.ood_trace[0]);
                } else {
                    flip_in(&mut img.ood_trace);
                }
            } else if tape::f("edit.ood_tag", 3) == 0 && !img.ood_quot.is_empty() {
                img.ood_quot[0] = interesting_u8(img.ood_quot[0]);
            } else {
                flip_in(&mut img.ood_quot);
            }
        },
        30 => img.fri_num_layers = interesting_u8(img.fri_num_layers),
        31 => {
            if !img.fri_layers.is_empty() {
                let i = tape::f("edit.layer", img.fri_layers.len() as u64) as usize;
                let l = &mut img.fri_layers[i];
                match tape::f("edit.layer_field", 3) {
                    0 => l.values_len = [0u32, l.values_len.wrapping_add(1), l.values_len.wrapping_sub(1), u32::MAX][tape::f("edit.u32", 4) as usize],
                    1 => l.paths_len = [0u32, l.paths_len.wrapping_add(1), l.paths_len.wrapping_sub(1), u32::MAX][tape::f("edit.u32", 4) as usize],
                    _ => flip_in(&mut l.values),
                }
            }
        },
        32 => {
            if tape::f("edit.remainder_len", 2) == 0 {
                img.remainder_len = [0u16, img.remainder_len.wrapping_add(1), img.remainder_len.wrapping_sub(1), img.remainder_len.wrapping_mul(2), 0xffff][tape::f("edit.u16", 5) as usize];
            } else {
                flip_in(&mut img.remainder);
            }
        },
        _ => {
            if tape::f("edit.partitions_or_nonce", 2) == 0 {
                img.fri_partitions = interesting_u8(img.fri_partitions);
            } else {
                // single-bit edits, and shifts by a field modulus (an integer absorbed into a
                // field-based hasher must not be reduced modulo the field prime)
                match tape::f("edit.nonce_kind", 4) {
                    0 => img.pow_nonce = img.pow_nonce.wrapping_add(0xFFFF_FFFF_0000_0001),
                    1 => img.pow_nonce = img.pow_nonce.wrapping_add(4611624995532046337),
                    _ => img.pow_nonce ^= 1 << tape::f("edit.nonce_bit", 64),
                }
            }
        },
    }
    FIELD_FAULTS[kind]
}

pub const COORDINATED_FAULTS: [&str; 13] = [
    "meta_append_zeros", "remainder_prepend_zeros", "remainder_append_zeros", "fri_extra_layer", "fri_drop_layer",
    "merkle_extra_node", "merkle_extra_vector", "queries_extra_row", "commitments_extra_digest",
    "one_more_unique_query_everywhere", "one_fewer_unique_query_everywhere", "modulus_append_bytes", "extension_switch",
];

/// a coordinated multi-site edit: content changed AND every length that describes it re-synchronised,
/// so that the result is again a well-formed encoding
pub fn coordinated_fault(img: &mut Img, kind: usize, element_bytes: usize) -> &'static str {
    match kind {
        0 => {
            let k = 1 + tape::f("coord.zeros", 8) as usize;
            if img.meta.len() + k <= 65535 {
                img.meta.extend(std::iter::repeat(0u8).take(k));
            }
        },
        1 => {
            // remainder coefficients travel highest degree first: leading zeros leave every
            // evaluation unchanged
            let have = img.remainder.len() / element_bytes.max(1);
            let add = have.max(1) * element_bytes;
            if img.remainder.len() + add <= 65535 {
                let mut v = vec![0u8; add];
                v.extend_from_slice(&img.remainder);
                img.remainder = v;
            }
        },
        2 => {
            let have = img.remainder.len() / element_bytes.max(1);
            let add = have.max(1) * element_bytes;
            if img.remainder.len() + add <= 65535 {
                img.remainder.extend(std::iter::repeat(0u8).take(add));
            }
        },
        3 => {
            match img.fri_layers.last().cloned() {
                Some(l) => img.fri_layers.push(l),
                // a proof without FRI layers (the whole polynomial fits the remainder) gets a
                // well-formed surplus layer: a few element bytes and an empty opening
                None => img.fri_layers.push(LayerImg {
                    values_len: 0,
                    values: vec![0u8; element_bytes.max(1) * 2],
                    paths_len: 0,
                    paths: MerkleImg { depth: 1, nvec: 0, vecs: Vec::new() },
                }),
            }
        },
        4 => {
            img.fri_layers.pop();
        },
        5 => {
            let ds = img.digest_size;
            let m = pick_merkle(img);
            if !m.vecs.is_empty() {
                let i = tape::f("coord.vec", m.vecs.len() as u64) as usize;
                let node = m.vecs[i].1.last().cloned().unwrap_or_else(|| vec![0x11; ds]);
                m.vecs[i].1.push(node);
            }
        },
        6 => {
            let m = pick_merkle(img);
            let v = m.vecs.last().cloned().unwrap_or((0, Vec::new()));
            m.vecs.push(v);
        },
        7 => {
            let q = pick_queries(img);
            let rows = tape::f("coord.rowbytes", 3) as usize;
            let add = [element_bytes, 2 * element_bytes, q.values.len().min(64)][rows];
            q.values.extend(std::iter::repeat(0u8).take(add));
        },
        8 => {
            let ds = img.digest_size;
            if img.commitments.len() + ds <= 65535 {
                let d: Vec<u8> = img.commitments[img.commitments.len().saturating_sub(ds)..].to_vec();
                img.commitments.extend_from_slice(&d);
            }
        },
        9 | 10 => {
            // the unique-query count and every query table change together: one more (a copy of
            // the last row) or one fewer row in the main, auxiliary and constraint tables
            let n = img.num_unique_queries as usize;
            if n == 0 || (kind == 9 && n == 255) || (kind == 10 && n == 1) {
                return COORDINATED_FAULTS[kind];
            }
            for q in img.trace_queries.iter_mut().chain(std::iter::once(&mut img.constraint_queries)) {
                let row = q.values.len() / n;
                if kind == 9 {
                    let last: Vec<u8> = q.values[q.values.len() - row..].to_vec();
                    q.values.extend_from_slice(&last);
                } else {
                    let keep = q.values.len() - row;
                    q.values.truncate(keep);
                }
            }
            img.num_unique_queries = if kind == 9 { (n + 1) as u8 } else { (n - 1) as u8 };
        },
        11 => {
            let k = [1usize, 8, 16, 17, 32, 200][tape::f("coord.modulus_extra", 6) as usize];
            let fill = [0u8, 1, 0xff][tape::f("coord.modulus_fill", 3) as usize];
            if img.modulus.len() + k <= 255 {
                img.modulus.extend(std::iter::repeat(fill).take(k));
            }
        },
        12 => {
            // the extension-degree byte changes AND every blob of extension-field elements is
            // resized to the new element width (auxiliary and constraint query tables, both halves
            // of the out-of-domain frame, FRI layer values, remainder), so that all shape checks
            // pass: a proof that claims another extension, possibly one the field does not support
            let old = img.opts[3] as usize;
            if (1..=3).contains(&old) {
                let new = [[2usize, 3], [1, 3], [1, 2]][old - 1][tape::f("coord.ext_new", 2) as usize];
                let fill = [0u8, 1, 0xff][tape::f("coord.ext_fill", 3) as usize];
                let resize = |v: &mut Vec<u8>, header: usize| {
                    if v.len() >= header {
                        let n = header + (v.len() - header) / old * new;
                        v.resize(n, fill);
                    }
                };
                for q in img.trace_queries.iter_mut().skip(1) {
                    resize(&mut q.values, 0);
                }
                resize(&mut img.constraint_queries.values, 0);
                resize(&mut img.ood_trace, 1);
                resize(&mut img.ood_quot, 1);
                for l in img.fri_layers.iter_mut() {
                    resize(&mut l.values, 0);
                }
                resize(&mut img.remainder, 0);
                img.opts[3] = new as u8;
            }
        },
        _ => {},
    }
    img.fix_lengths();
    COORDINATED_FAULTS[kind]
}

/// The link between prover and verifier: applies 1..=3 tape-chosen faults to an honest encoding.
/// `mix` biases the fault classes (swarm): 0 = all kinds, 1 = byte level only, 2 = field edits
/// only, 3 = coordinated edits only. Returns the faults in words.
pub fn sim_link(honest: &[u8], digest_size: usize, element_bytes: usize, mix: u64) -> (Vec<u8>, Vec<String>) {
    let nfaults = 1 + tape::weighted(Stream::Faults, "link.nfaults", &[6, 2, 1]);
    let mut bytes = honest.to_vec();
    let mut words = Vec::new();
    for _ in 0..nfaults {
        let class = match mix {
            1 => 0,
            2 => 1,
            3 => 2,
            _ => tape::weighted(Stream::Faults, "link.class", &[3, 5, 2]),
        };
        match class {
            0 => {
                let k = tape::f("link.byte_kind", BYTE_FAULTS.len() as u64) as usize;
                let w = byte_fault(&mut bytes, k);
                stats::count(&format!("fault.{}", BYTE_FAULTS[k]), 1);
                words.push(format!("{}: {w}", BYTE_FAULTS[k]));
            },
            c => {
                // field edits need the current bytes to still have the documented layout
                match Img::parse(&bytes, digest_size) {
                    Some(mut img) => {
                        let name = if c == 1 {
                            let k = tape::f("link.field_kind", FIELD_FAULTS.len() as u64) as usize;
                            field_fault(&mut img, k)
                        } else {
                            let k = tape::f("link.coord_kind", COORDINATED_FAULTS.len() as u64) as usize;
                            coordinated_fault(&mut img, k, element_bytes)
                        };
                        stats::count(&format!("fault.{name}"), 1);
                        words.push(name.to_string());
                        bytes = img.encode();
                    },
                    None => {
                        let k = tape::f("link.byte_kind", BYTE_FAULTS.len() as u64) as usize;
                        let w = byte_fault(&mut bytes, k);
                        stats::count(&format!("fault.{}", BYTE_FAULTS[k]), 1);
                        words.push(format!("{}: {w}", BYTE_FAULTS[k]));
                    },
                }
            },
        }
    }
    (bytes, words)
}

// IMAGE OF A STAND-ALONE FRI PROOF
// ================================================================================================

#[derive(Clone, Debug, PartialEq)]
pub struct FriImg {
    pub num_layers: u8,
    pub layers: Vec<LayerImg>,
    pub remainder_len: u16,
    pub remainder: Vec<u8>,
    pub partitions: u8,
}

impl FriImg {
    pub fn parse(bytes: &[u8], digest_size: usize) -> Option<FriImg> {
        let mut r = Rd { b: bytes, p: 0 };
        let num_layers = r.u8()?;
        let mut layers = Vec::new();
        for _ in 0..num_layers {
            let values_len = r.u32()?;
            let values = r.take(values_len as usize)?.to_vec();
            let paths_len = r.u32()?;
            let pbytes = r.take(paths_len as usize)?;
            let mut pr = Rd { b: pbytes, p: 0 };
            let paths = merkle_parse(&mut pr, digest_size)?;
            if pr.p != pbytes.len() {
                return None;
            }
            layers.push(LayerImg { values_len, values, paths_len, paths });
        }
        let remainder_len = r.u16()?;
        let remainder = r.take(remainder_len as usize)?.to_vec();
        let partitions = r.u8()?;
        if r.p != bytes.len() {
            return None;
        }
        Some(FriImg { num_layers, layers, remainder_len, remainder, partitions })
    }

    pub fn encode(&self) -> Vec<u8> {
        let mut o = vec![self.num_layers];
        for l in self.layers.iter() {
            o.extend_from_slice(&l.values_len.to_le_bytes());
            o.extend_from_slice(&l.values);
            o.extend_from_slice(&l.paths_len.to_le_bytes());
            merkle_encode(&l.paths, &mut o);
        }
        o.extend_from_slice(&self.remainder_len.to_le_bytes());
        o.extend_from_slice(&self.remainder);
        o.push(self.partitions);
        o
    }

    pub fn fix_lengths(&mut self) {
        self.num_layers = self.layers.len() as u8;
        for l in self.layers.iter_mut() {
            l.paths.nvec = l.paths.vecs.len() as u64;
            for v in l.paths.vecs.iter_mut() {
                v.0 = v.1.len() as u64;
            }
            l.values_len = l.values.len() as u32;
            l.paths_len = merkle_len(&l.paths) as u32;
        }
        self.remainder_len = self.remainder.len() as u16;
    }
}
