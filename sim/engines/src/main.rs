//! Simulation engines for winterfell. One binary per build configuration (serial / concurrent on
//! simrayon / async); the configuration name is baked in through cargo features.

#[global_allocator]
static ALLOC: simcore::alloc::SimAlloc = simcore::alloc::SimAlloc;

#[cfg(feature = "with-examples")]
mod bundled;
mod c01;
mod c03;
mod c06;
mod c08;
mod c12;
mod c14;
mod c20;
mod c26;
mod c28;
mod c27;
#[cfg(feature = "async")]
mod executor;
mod fields;
mod genair;
mod merkle;
mod protocol;
mod sched;
mod selftest;
mod streams;
mod transport;
mod wire;

pub fn config_name() -> &'static str {
    if cfg!(feature = "real-rayon") {
        return "real-rayon";
    }
    match (cfg!(feature = "concurrent"), cfg!(feature = "async")) {
        (false, false) => "serial",
        (true, false) => "concurrent",
        (false, true) => "async",
        (true, true) => "concurrent-async",
    }
}

/// enumerating scenarios: the case number of this run
pub fn exh_index(total: u64) -> u64 {
    simcore::tape::indexed("exhaustive.case", total)
}

fn main() {
    let mut scs = Vec::new();
    scs.extend(c01::scenarios());
    #[cfg(feature = "with-examples")]
    scs.extend(bundled::scenarios());
    scs.extend(c03::scenarios());
    scs.extend(c06::scenarios());
    scs.extend(transport::scenarios());
    scs.extend(c08::scenarios());
    scs.extend(c12::scenarios());
    scs.extend(c14::scenarios());
    scs.extend(merkle::scenarios());
    scs.extend(c20::scenarios());
    scs.extend(c26::scenarios());
    scs.extend(c28::scenarios());
    scs.extend(c27::scenarios());
    scs.extend(selftest::scenarios());
    simcore::driver::main(scs, config_name());
}
