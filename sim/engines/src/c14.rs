//! C14 - batch field utilities against their element-wise definitions, under the simulated
//! scheduler (every worker count, task orders) and in the serial build.

use math::{
    add_in_place, batch_inversion, get_power_series, get_power_series_with_offset, mul_acc, FieldElement,
};
use simcore::{
    driver::Scenario,
    fail, guard, stats,
    tape::{self, Stream},
    Outcome,
};
use utils::{flatten_slice_elements, flatten_vector_elements, group_slice_elements, transpose_slice};

use crate::{
    fields::{rand_elem, rand_nonzero, rand_vec, show, FIELD_NAMES},
    sched, with_element_type,
};

pub fn scenarios() -> Vec<Scenario> {
    vec![
        Scenario::new(
            "C14",
            "batch-utils",
            "batch_inversion / power series / add_in_place / mul_acc on lengths around every batching boundary, zeros at the start, end and batch boundaries, all element types; reference = element-wise definition",
            run_batch_utils,
            6_000,
            150_000,
        ),
        Scenario::new(
            "C14",
            "slice-helpers",
            "transpose_slice / group_slice_elements / flatten_* preserve element order (index-arithmetic reference)",
            run_slice_helpers,
            4_000,
            100_000,
        ),
    ]
}

/// lengths: 0, 1, 2, small odd, 1023/1024/1025, k*1024 +- 1, and the neighbourhood of
/// 1024 * T.next_power_of_two() where batching switches on (not divisible lengths included)
fn draw_len(threads: usize) -> usize {
    let t2 = threads.next_power_of_two();
    match tape::w("len.class", 10) {
        0 => tape::w("len.tiny", 4) as usize,
        1 => 3 + 2 * tape::w("len.odd", 30) as usize,
        2 => 1023 + tape::w("len.1024", 3) as usize,
        3 => {
            let k = 1 + tape::w("len.k", 5) as usize;
            (k * 1024 + tape::w("len.pm", 3) as usize).saturating_sub(1)
        },
        4 | 5 => {
            // batching threshold for this worker count
            let base = 1024 * t2;
            let delta = tape::w("len.delta", 7) as i64 - 3;
            (base as i64 + delta).max(0) as usize
        },
        6 => {
            // several batches, not divisible by the batch count
            let k = 1 + tape::w("len.k", 3) as usize;
            k * 1024 * t2 + 1 + tape::w("len.rem", (t2 as u64).max(2)) as usize
        },
        7 => 1024 * t2 * (1 + tape::w("len.k", 4) as usize),
        _ => tape::w("len.any", 5000) as usize,
    }
}

fn run_batch_utils() -> Outcome {
    let threads = sched::begin(false);
    let fidx = tape::w("field", 8) as usize;
    let op = tape::w("op", 5);
    let n = draw_len(threads);
    stats::sig(fidx as u64 * 8 + op);
    stats::sig(n as u64);
    stats::sample(|| format!("{{\"op\":{op},\"field\":\"{}\",\"len\":{n},\"threads\":{threads}}}", FIELD_NAMES[fidx]));
    let r = with_element_type!(fidx, E => batch_utils::<E>(op, n, threads));
    if n >= 2 {
        stats::nontrivial();
    }
    if sched::regions() > 0 {
        stats::probe("probe.ran_under_simulated_scheduler");
    }
    r
}

fn batch_utils<E: FieldElement>(op: u64, n: usize, threads: usize) -> Outcome {
    let mut rng = tape::fork(Stream::Workload, "values");
    let t2 = threads.next_power_of_two();
    match op {
        0 => {
            // batch inversion with zeros at interesting places
            let mut values: Vec<E> = rand_vec(&mut rng, n);
            let zero_style = tape::w("zeros", 6);
            let batch = if n / t2 >= 1024 { n / t2 } else { n.max(1) };
            match zero_style {
                0 => {},
                1 => {
                    if n > 0 {
                        values[0] = E::ZERO;
                    }
                },
                2 => {
                    if n > 0 {
                        values[n - 1] = E::ZERO;
                    }
                },
                3 => {
                    // first and last element of every batch
                    let mut i = 0;
                    while i < n {
                        values[i] = E::ZERO;
                        if i > 0 {
                            values[i - 1] = E::ZERO;
                        }
                        i += batch;
                    }
                    stats::probe("probe.zeros_on_batch_boundaries");
                },
                4 => values.iter_mut().for_each(|v| *v = E::ZERO),
                _ => {
                    for v in values.iter_mut() {
                        if rng.below(4) == 0 {
                            *v = E::ZERO;
                        }
                    }
                },
            }
            if n / t2 >= 1024 && threads > 1 {
                stats::probe("probe.batched_path_taken");
                if n % t2 != 0 {
                    stats::probe("probe.length_not_divisible_by_batch_count");
                }
            }
            let got = match guard(|| batch_inversion(&values)) {
                Ok(v) => v,
                Err(p) => fail!("panic", p.site(), "batch_inversion of {n} elements at {threads} threads: {}", p.msg),
            };
            if got.len() != n {
                fail!("length-differs", "batch_inversion", "{} results for {n} inputs", got.len());
            }
            for i in 0..n {
                let want = if values[i] == E::ZERO { E::ZERO } else { values[i].inv() };
                if got[i] != want {
                    fail!("differs-from-elementwise-definition", "batch_inversion", "n={n} threads={threads} index {i}: value {} inverse should be {} got {}", show(&values[i]), show(&want), show(&got[i]));
                }
            }
        },
        1 | 2 => {
            let b: E = match tape::w("base", 4) {
                0 => E::ONE,
                1 => E::ZERO,
                _ => rand_nonzero(&mut rng),
            };
            let s: E = if op == 2 { rand_elem(&mut rng) } else { E::ONE };
            let name = if op == 1 { "get_power_series" } else { "get_power_series_with_offset" };
            let got = match guard(|| if op == 1 { get_power_series(b, n) } else { get_power_series_with_offset(b, s, n) }) {
                Ok(v) => v,
                Err(p) => fail!("panic", p.site(), "{name}(_, {n}) at {threads} threads: {}", p.msg),
            };
            if got.len() != n {
                fail!("length-differs", name, "{} results for n={n}", got.len());
            }
            let mut acc = s;
            for (i, g) in got.iter().enumerate() {
                if *g != acc {
                    fail!("differs-from-elementwise-definition", name, "n={n} threads={threads} index {i}: want {} got {}", show(&acc), show(g));
                }
                acc *= b;
            }
            if n / t2 >= 1024 && threads > 1 {
                stats::probe("probe.batched_path_taken");
            }
        },
        3 => {
            let a0: Vec<E> = rand_vec(&mut rng, n);
            let b: Vec<E> = rand_vec(&mut rng, n);
            let mut a = a0.clone();
            if let Err(p) = guard(|| add_in_place(&mut a, &b)) {
                fail!("panic", p.site(), "add_in_place n={n}: {}", p.msg);
            }
            for i in 0..n {
                if a[i] != a0[i] + b[i] {
                    fail!("differs-from-elementwise-definition", "add_in_place", "n={n} threads={threads} index {i}");
                }
            }
        },
        _ => {
            let a0: Vec<E> = rand_vec(&mut rng, n);
            let b: Vec<E::BaseField> = rand_vec(&mut rng, n);
            let c: E = rand_elem(&mut rng);
            let mut a = a0.clone();
            if let Err(p) = guard(|| mul_acc(&mut a, &b, c)) {
                fail!("panic", p.site(), "mul_acc n={n}: {}", p.msg);
            }
            for i in 0..n {
                if a[i] != a0[i] + c * E::from(b[i]) {
                    fail!("differs-from-elementwise-definition", "mul_acc", "n={n} threads={threads} index {i}");
                }
            }
        },
    }
    Ok(())
}

fn run_slice_helpers() -> Outcome {
    let threads = sched::begin(false);
    let width = [1usize, 2, 3, 4, 8, 16][tape::w("width", 6) as usize];
    let rows = match tape::w("rows.class", 5) {
        0 => tape::w("rows.tiny", 4) as usize,
        1 => 1023 + tape::w("rows.1024", 3) as usize,
        2 => 1024 * threads.next_power_of_two() + tape::w("rows.pm", 3) as usize - 1,
        _ => tape::w("rows.any", 3000) as usize,
    };
    let n = rows * width;
    stats::sig((width * 100_000 + rows) as u64);
    stats::sample(|| format!("{{\"width\":{width},\"rows\":{rows},\"threads\":{threads}}}"));
    let source: Vec<u64> = (0..n as u64).map(|i| i.wrapping_mul(0x9e37_79b9).wrapping_add(11)).collect();
    macro_rules! check {
        ($n:literal) => {{
            let t: Vec<[u64; $n]> = match guard(|| transpose_slice::<u64, $n>(&source)) {
                Ok(t) => t,
                Err(p) => fail!("panic", p.site(), "transpose_slice width {} rows {rows}: {}", $n, p.msg),
            };
            if t.len() != rows {
                fail!("length-differs", "transpose_slice", "{} rows, want {rows}", t.len());
            }
            for i in 0..rows {
                for j in 0..$n {
                    if t[i][j] != source[i + j * rows] {
                        fail!("element-order-not-preserved", "transpose_slice", "width {} rows {rows} threads {threads}: cell ({i},{j})", $n);
                    }
                }
            }
            let g: &[[u64; $n]] = group_slice_elements(&source);
            for i in 0..rows {
                for j in 0..$n {
                    if g[i][j] != source[i * $n + j] {
                        fail!("element-order-not-preserved", "group_slice_elements", "width {} cell ({i},{j})", $n);
                    }
                }
            }
            if flatten_slice_elements(g) != &source[..] {
                fail!("element-order-not-preserved", "flatten_slice_elements", "width {}", $n);
            }
            if flatten_vector_elements(g.to_vec()) != source {
                fail!("element-order-not-preserved", "flatten_vector_elements", "width {}", $n);
            }
        }};
    }
    match width {
        1 => check!(1),
        2 => check!(2),
        3 => check!(3),
        4 => check!(4),
        8 => check!(8),
        _ => check!(16),
    }
    if n >= 2 {
        stats::nontrivial();
    }
    Ok(())
}
