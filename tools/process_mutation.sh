#!/bin/bash
# verify a candidate seeded change and run the property's quick check against it (scratch copies only)
# usage: process_mutation.sh <ID> <m> <demo file> <dest in repo> <cargo test args...>     env: SLOT
# The patch is tried against /repo's HEAD first and, if it does not apply there (a later fix:
# commit touched the same lines), against the commit the sub-agents worked from ($AGENT_BASE).
ID=$1; M=$2; DEMO=$3; DEST=$4; shift 4
D=/tmp/wt/out/$ID/$M
export SLOT=${SLOT:-0}
export WT=/tmp/wt/verify$SLOT
AGENT_BASE=${AGENT_BASE:-c197d4d}
if ! git -C /repo apply --check $D/patch.diff 2>/dev/null; then export BASE=$AGENT_BASE; echo "patch does not apply to HEAD; using base $BASE"; fi
/verif/tools/verify_mutation.sh $D $D/$DEMO $DEST "$@" > /dev/null 2>&1
tail -1 $D/verify.log
/verif/tools/seeded.sh $D/patch.diff ${ID:0:3} quick > $D/seeded.log 2>&1
echo "seeded rc=$? $(grep -c '^VIOLATION' $D/seeded.log) VIOLATION lines"
grep -h "^  violation \|violation " $D/seeded.log | head -4 | cut -c1-300
