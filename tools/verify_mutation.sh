#!/bin/bash
# Confirms a candidate seeded change independently, in a scratch worktree (never in /repo):
#   1. the demonstration passes on the clean tree, 2. the patch applies, 3. the demonstration
#   fails with it, 4. the unedited workspace test suite still passes with it.
# usage: verify_mutation.sh <dir with patch.diff> <demo file> <dest path in repo> <cargo test args...>
set -u
DIR=$1; DEMO=$2; DEST=$3; shift 3
WT=${WT:-/tmp/wt/verify}
export CARGO_NET_OFFLINE=true CARGO_TARGET_DIR=${WT:-/tmp/wt/verify}-target
LOG=$DIR/verify.log
: > $LOG
HEAD=${BASE:-$(git -C /repo rev-parse HEAD)}
if [ ! -d $WT ]; then git -C /repo worktree add -q --detach $WT $HEAD >>$LOG 2>&1; fi
cd $WT && git checkout -q --detach $HEAD && git checkout -q -- . && git clean -fdq
mkdir -p $(dirname $DEST) && cp $DEMO $DEST
echo "== demo on clean tree: cargo test --offline $*" >>$LOG
if cargo test --offline "$@" >>$LOG 2>&1; then clean=pass; else clean=FAIL; fi
if git apply $DIR/patch.diff >>$LOG 2>&1; then applied=yes; else applied=NO; fi
echo "== demo with the change" >>$LOG
if cargo test --offline "$@" >>$LOG 2>&1; then mutated=PASS; else mutated=fail; fi
rm -f $DEST
echo "== workspace suite with the change" >>$LOG
cargo test --workspace --no-fail-fast --offline >$DIR/verify-suite.log 2>&1; suite_rc=$?
passed=$(grep -h "^test result" $DIR/verify-suite.log | awk '{s+=$4} END {print s}')
failed=$(grep -h "^test result" $DIR/verify-suite.log | awk '{s+=$6} END {print s}')
git checkout -q -- . && git clean -fdq
verdict=REJECT
if [ $clean = pass ] && [ $applied = yes ] && [ $mutated = fail ] && [ $suite_rc = 0 ] && [ "$failed" = 0 ]; then verdict=CONFIRMED; fi
echo "$verdict dir=$DIR demo_clean=$clean applied=$applied demo_mutated=$mutated suite_rc=$suite_rc passed=$passed failed=$failed head=$HEAD" | tee -a $LOG
