#!/bin/bash
# Runs the thorough tier of the given properties (default: all claimed) one after the other and
# prints one summary line each. Meant for `vp run`; evidence produced here is NOT committed.
cd "$(dirname "$0")/.."
props="$@"
[ -z "$props" ] && props=$(python3 -c "import checks_meta; print(' '.join(sorted(checks_meta.CHECKS)))")
for p in $props; do
  t0=$(date +%s)
  ./check $p thorough > thorough-$p.log 2>&1; rc=$?
  echo "$p thorough exit=$rc wall=$(( $(date +%s) - t0 ))s violations=$(grep -c '^VIOLATION' thorough-$p.log)"
  grep -h '^VIOLATION\|HARNESS-ERROR\|violation ' thorough-$p.log | cut -c1-400 | head -8
done
