#!/bin/bash
# Runs every quick check under several VERIF_SEED values; the unchanged tree must stay silent.
# usage: seed_sweep.sh <seed> [<seed> ...]
cd "$(dirname "$0")/.."
./setup.sh > /dev/null 2>&1
for seed in "$@"; do
  for p in $(python3 -c "import checks_meta; print(' '.join(sorted(checks_meta.CHECKS)))"); do
    VERIF_SEED=$seed ./check $p quick > sweep-$seed-$p.log 2>&1; rc=$?
    echo "seed=$seed $p exit=$rc violations=$(grep -c '^VIOLATION' sweep-$seed-$p.log) $(grep -m1 'violation ' sweep-$seed-$p.log | cut -c1-160)"
  done
done
