#!/bin/bash
# Runs every claimed property's quick check in /verif against /repo (rewrites evidence/*.json).
cd "$(dirname "$0")/.."
for p in $(python3 -c "import checks_meta; print(' '.join(sorted(checks_meta.CHECKS)))"); do
  t0=$(date +%s)
  ./check $p quick > target/quick-$p.log 2>&1; rc=$?
  echo "$p quick exit=$rc wall=$(( $(date +%s) - t0 ))s VIOLATION-lines=$(grep -c '^VIOLATION' target/quick-$p.log) known=$(grep -c '^KNOWN-FINDING' target/quick-$p.log)"
done
