#!/bin/bash
# Runs a check against a seeded change WITHOUT touching /repo: a scratch worktree of /repo gets
# the patch, a scratch copy of /verif is pointed at it, and the check runs there.
# usage: seeded.sh <patch.diff> <property> [tier]      (prints the check's output; exit = check's exit)
set -u
PATCH=$(readlink -f $1); PROP=$2; TIER=${3:-quick}
TAG=$(echo "$PATCH" | md5sum | cut -c1-8)
ROOT=/tmp/seedrun/$TAG
rm -rf $ROOT; mkdir -p $ROOT
git -C /repo worktree prune
git -C /repo worktree add -q --detach $ROOT/repo HEAD || exit 2
( cd $ROOT/repo && git apply $PATCH ) || { echo "PATCH DOES NOT APPLY"; git -C /repo worktree remove --force $ROOT/repo; exit 2; }
rsync -a --exclude target --exclude .git --exclude replays --exclude evidence /verif/ $ROOT/verif/
sed -i "s#/repo/#$ROOT/repo/#g" $ROOT/verif/sim/engines/Cargo.toml
echo "$ROOT/repo" > $ROOT/verif/.repo_root
# reuse compiled third-party dependencies where possible
( cd $ROOT/verif && VERIF_SEED=${VERIF_SEED:-1} ./check $PROP $TIER ); rc=$?
git -C /repo worktree remove --force $ROOT/repo
rm -rf $ROOT
exit $rc
