#!/bin/bash
# Runs a check against a seeded change WITHOUT touching /repo: a scratch worktree of /repo gets
# the patch, a scratch copy of /verif is pointed at it, and the check runs there. The scratch
# slot (/tmp/seedrun/slot<N>) is reused between calls so that builds are incremental.
# usage: seeded.sh <patch.diff> <property> [tier]        env: SLOT=<n> (default 0), VERIF_SEED
set -u
PATCH=$(readlink -f $1); PROP=$2; TIER=${3:-quick}
ROOT=/tmp/seedrun/slot${SLOT:-0}
mkdir -p $ROOT
HEAD=${BASE:-$(git -C /repo rev-parse HEAD)}
if [ ! -d $ROOT/repo ]; then git -C /repo worktree prune; git -C /repo worktree add -q --detach $ROOT/repo $HEAD || exit 2; fi
( cd $ROOT/repo && git checkout -q -- . && git clean -fdq && git checkout -q --detach $HEAD ) || exit 2
( cd $ROOT/repo && git apply $PATCH ) || { echo "PATCH DOES NOT APPLY"; exit 2; }
# committed state of /verif only (work in progress must not leak into a seeded run)
mkdir -p $ROOT/verif.new && rm -rf $ROOT/verif.new/* && git -C /verif archive HEAD | tar -x -C $ROOT/verif.new
rm -rf $ROOT/verif.new/seeded $ROOT/verif.new/evidence
mkdir -p $ROOT/verif && rsync -a --delete --exclude target --exclude replays --exclude evidence $ROOT/verif.new/ $ROOT/verif/
sed -i "s#/repo/#$ROOT/repo/#g" $ROOT/verif/sim/engines/Cargo.toml
echo "$ROOT/repo" > $ROOT/verif/.repo_root
( cd $ROOT/verif && VERIF_SEED=${VERIF_SEED:-1} ./check $PROP $TIER ); rc=$?
( cd $ROOT/repo && git checkout -q -- . && git clean -fdq )
exit $rc
