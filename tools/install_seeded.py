#!/usr/bin/env python3
"""Installs a confirmed seeded change under /verif/seeded/<ID>-<m>/ and refreshes INDEX.md.
usage: install_seeded.py <ID> <m> <demo file name> <demo dest> "<demo cargo args>" "<needs>" "<detected: text>"
Reads /tmp/wt/out/<ID>/<m>/{patch.diff,verify.log,seeded.log}."""
import json, os, re, shutil, sys
ID, m, demo, dest, cargo, needs, detected = sys.argv[1:8]
src = f"/tmp/wt/out/{ID}/{m}"
dst = f"/verif/seeded/{ID}-{m}"
os.makedirs(dst, exist_ok=True)
shutil.copy(f"{src}/patch.diff", f"{dst}/patch.diff")
shutil.copy(f"{src}/{demo}", f"{dst}/{demo}")
if os.path.exists(f"{src}/README.md"):
    shutil.copy(f"{src}/README.md", f"{dst}/README.md")
verify = open(f"{src}/verify.log").read().strip().splitlines()[-1] if os.path.exists(f"{src}/verify.log") else ""
seeded_log = open(f"{src}/seeded.log").read() if os.path.exists(f"{src}/seeded.log") else ""
viol = [l.strip() for l in seeded_log.splitlines() if l.strip().startswith("violation ")][:3]
meta = {
    "property": ID[:3],
    "breaks": open(f"/tmp/wt/out/{ID}.prop.txt").read().splitlines()[0],
    "needs_to_manifest": needs,
    "demonstration": {"file": demo, "copy_to": dest, "command": f"cargo test --offline {cargo}", "expected": "passes on the clean tree, fails with patch.diff applied"},
    "independent_confirmation": verify,
    "what_i_ran": [
        f"tools/verify_mutation.sh {src} {src}/{demo} {dest} {cargo}   (scratch worktree /tmp/wt/verify: demo on clean tree, git apply, demo with the change, unedited workspace suite with the change)",
        f"tools/seeded.sh {dst}/patch.diff {ID} quick   (scratch copy of /repo + /verif; /repo itself untouched)",
    ],
    "detected_by_check": detected,
    "first_violations_reported": [v[:300] for v in viol],
}
json.dump(meta, open(f"{dst}/meta.json", "w"), indent=1)
# index
rows = []
for d in sorted(os.listdir("/verif/seeded")):
    p = f"/verif/seeded/{d}/meta.json"
    if os.path.exists(p):
        j = json.load(open(p))
        rows.append(f"| {d} | {j['property']} | {j['needs_to_manifest']} | {j['detected_by_check']} |")
open("/verif/seeded/INDEX.md", "w").write("# Seeded changes\n\n| id | property | needs, in order to manifest | caught by |\n|---|---|---|---|\n" + "\n".join(rows) + "\n")
print("installed", dst)
