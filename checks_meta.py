"""Per-property metadata shared by ./check (evidence) and MANIFEST.json (./check manifest)."""

# build configurations of the simulator binary (see sim/engines/Cargo.toml)
CONFIGS = {
    "serial": {"features": ["with-examples"]},
    "concurrent": {"features": ["concurrent", "with-examples"]},
    "async": {"features": ["async"]},
    "concurrent-async": {"features": ["concurrent", "async"]},
    "checked": {"features": ["with-examples"], "profile": "checked"},
}

REAL_ALL = "all winterfell code under test is the real code compiled from /repo's working tree"

CHECKS = {
    "C27": {
        "engine": "engines",
        "configs": ["serial"],
        "level": "exploration",
        "exhaustive": False,
        "technique": "deterministic simulation: ReadAdapter over a tape-chunked simulated stream, checked op by op against SliceReader as reference model; stream faults (EINTR, I/O error, premature EOF) in a separate configuration; exhaustive small-bound arm",
        "level_text": "Seeded exploration of (content, read-chunking schedule, operation sequence) triples with an executable reference model, plus complete enumeration of all contents <= 6 bytes x all chunkings x all operation sequences <= 3 over a reduced alphabet. The property quantifies over chunking schedules, which only a simulated stream can control; sampling is the right level because the space of schedules x sequences is unbounded.",
        "level_note": "Trusts SliceReader as the model (it is 40 lines of bounds-checked slicing, and C26 checks it separately). After the first error on either side the sequence stops (the trait documents that readers are not rolled back). Under injected stream faults the oracle is deliberately relaxed to: any value returned equals the model's, and no panic.",
        "design_ref": "DESIGN.md 3/C27",
        "rule": "a case = (content bytes, chunking style + per-read chunk lengths from the schedule stream, operation sequence of 1..40 ops, fault draws); distinct = distinct hash of (content length, chunk style, first six operations with their arguments); non-trivial = the simulated stream was read with more than one read() call. The exhaustive-small scenario enumerates its 71040 cases exactly once each.",
        "assumptions": [
            "SliceReader is a correct model of ByteReader semantics",
            "state of a reader after it returned an error is unspecified (documented), so sequences end at the first error",
            "std::io::BufReader behaves as documented (it is real code, not a stub)",
        ],
        "real_vs_stub": {"real": ["winter-utils ReadAdapter, SliceReader, ByteReader provided methods", "std::io::BufReader"], "stub": ["the underlying std::io::Read stream (SimReader: tape-chosen chunking and faults)"]},
    },
    "C26": {
        "engine": "engines",
        "configs": ["serial"],
        "level": "fault_enumeration",
        "technique": "deterministic simulation of the byte-stream path: values -> ByteWriter over a short-writing / failing simulated writer -> simulated storage -> transport faults (torn write at a tape-chosen cut, bit flip, byte set, length-prefix edit, invalid bool, invalid UTF-8) -> SliceReader / Cursor / ReadAdapter over a chunked simulated stream; size-value boundaries enumerated",
        "level_text": "Fault enumeration over the codec path: every primitive and container type the crate serialises (40 concrete instantiations) is written through a writer that accepts tape-chosen prefixes and may fail, stored, damaged by one fault from a fixed catalogue placed inside the encoding, and decoded through three readers. Size-value encodings are enumerated at every 2^k boundary. Faults only count when they land inside the encoding.",
        "level_note": "The branch of read_usize that rejects values not fitting the platform cannot be reached on a 64-bit host (usize::MAX == u64::MAX) and no 32-bit target can run here: reported as not exercised. Write-side hard errors may panic (documented); the oracle then only requires storage to hold a prefix of the reference encoding. Element counts are bounded (<= 300) so honest encodings stay far below the 64 MiB allocation cap.",
        "design_ref": "DESIGN.md 3/C26",
        "rule": "a case = (concrete type out of 40, generated value, writer chunking, reader kind and chunking, one fault kind with its position); distinct = distinct hash of (type, encoding length, fault kind, stream styles); non-trivial = a fault was injected inside the encoding, or the writer/reader needed more than one call.",
        "assumptions": [
            "equality of decoded and original value is judged by the types' own PartialEq",
            "documented length of a size value = vint64: 1 byte per 7 bits up to 56 bits, 9 bytes above",
            "32-bit usize overflow branch not exercised (64-bit host)",
        ],
        "real_vs_stub": {"real": ["winter-utils Serializable/Deserializable impls, ByteWriter/ByteReader provided methods, SliceReader, Cursor impl, ReadAdapter"], "stub": ["std::io::Write sink (SimWriter) and std::io::Read source (SimReader)", "global allocator (poisoning, 64 MiB single-request cap)"]},
    },
}

STUB_RAYON = "rayon (replaced by simrayon: simulated worker count 1..16,17,24,32,33,48,64; tape-chosen leaf splitting, task order, interleaving, scope/spawn order)"
STUB_ALLOC = "global allocator (per-run poison fill of fresh blocks so an unwritten uninit_vector slot is visible; single-request cap)"

CHECKS.update({
    "C12": {
        "engine": "engines",
        "configs": ["serial", "concurrent"],
        "level": "exploration",
        "technique": "deterministic simulation of the data-parallel FFT kernels on a tape-driven rayon stand-in (every worker count, task orders, interleavings) plus the serial build; oracle = reference model (Horner evaluation / inverse), poisoned allocator",
        "level_text": "Seeded exploration over (field, extension, size 2..2^16, blowup, offset, degree, operation) x (simulated worker count, schedule). Both builds are compared with naive evaluation, so they are also compared with each other. Thread-count-dependent chunk arithmetic and the three aliasing `unsafe` sites are where a schedule can matter; task-atomic reordering exposes any conflict between two tasks.",
        "level_note": "Trusts field arithmetic (C10 is outside this technique). Reference is complete for n <= 512 and domain <= 4096, 48 sampled points above. Sub-task interleavings of two conflicting tasks are not explored (they cannot create a failure no task order exposes unless the conflict is value-neutral in both orders). simrayon is a model of rayon, not rayon.",
        "design_ref": "DESIGN.md 3/C12, 2.2",
        "rule": "a case = (element type of 8, size, blowup, offset class, true degree, operation of 7, worker count, schedule decisions); distinct = distinct hash of (element type, log size, operation, worker count, interleaving signature of every parallel region); every case is non-trivial (n >= 2).",
        "assumptions": ["field arithmetic is exact (C10, not claimed)", "simrayon explores task-atomic serialisations of each parallel region"],
        "real_vs_stub": {"real": ["winter-math fft (serial and concurrent modules), get_power_series, field arithmetic"], "stub": [STUB_RAYON, STUB_ALLOC]},
    },
    "C14": {
        "engine": "engines",
        "configs": ["serial", "concurrent"],
        "level": "exploration",
        "technique": "deterministic simulation of the batch utilities on the tape-driven rayon stand-in at every worker count, with lengths placed around each batching boundary; oracle = element-wise reference model; poisoned allocator",
        "level_text": "Seeded exploration over (operation, element type, length class, zero placement) x (worker count, schedule). Lengths are drawn relative to 1024 * next_power_of_two(workers), the point where batching switches on, including lengths not divisible by the batch count.",
        "level_note": "Trusts E::inv / mul for single elements. Lengths up to about 5 batches (<= 330k elements at 64 workers).",
        "design_ref": "DESIGN.md 3/C14",
        "rule": "a case = (operation, element type, length, zero style, worker count, schedule); distinct = distinct hash of (operation, element type, length, worker count, interleaving signature); non-trivial = length >= 2.",
        "assumptions": ["single-element field operations are exact (C10, not claimed)"],
        "real_vs_stub": {"real": ["winter-math utils, winter-utils slice helpers and batch_iter_mut!/iter_mut! macros"], "stub": [STUB_RAYON, STUB_ALLOC]},
    },
    "C18": {
        "engine": "engines",
        "configs": ["serial", "concurrent"],
        "level": "exploration",
        "technique": "deterministic simulation of the parallel Merkle build (scope/spawn sub-tree tasks, aliased node buffer) on the rayon stand-in; oracle = recursive-hash reference model for root, every node, single paths; batch openings cross-checked four ways",
        "level_text": "Seeded exploration over (hasher of 6, 2..2^14 leaves, index sets of 1..255 in ascending / descending / shuffled order, sibling-heavy and clustered sets) x (worker count incl. non powers of two, spawn/steal order). The parallel builder hands aliased &mut slices to scope tasks; any overlap shows as a node mismatch under some task order.",
        "level_note": "Rescue-based hashers are limited to 2^12 leaves for cost. Single openings are checked at all indexes up to 64 leaves, 13 sampled indexes above.",
        "design_ref": "DESIGN.md 3/C18",
        "rule": "a case = (hasher, leaf count, worker count, schedule, 1-3 index sets with order style); distinct = distinct hash of (hasher, log leaves, worker count, scope task order, index-set shape); all non-trivial.",
        "assumptions": ["Hasher::merge / hash are deterministic functions (C15/C16, not claimed)"],
        "real_vs_stub": {"real": ["winter-crypto MerkleTree, BatchMerkleProof, concurrent::build_merkle_nodes, hashers"], "stub": [STUB_RAYON, STUB_ALLOC]},
    },
    "C19": {
        "engine": "engines",
        "configs": ["serial"],
        "thorough_extra_configs": ["checked"],
        "level": "fault_enumeration",
        "technique": "deterministic simulation with fault injection on Merkle openings treated as messages: same-shape substitutions (leaf, node, index, duplicate, out-of-range) must be rejected; shape-changing faults and wire damage (bit flip, truncation, count byte, random bytes) must not panic",
        "level_text": "Fault enumeration: a fixed catalogue of 8 substitution faults (oracle: Err) and 12 shape/wire faults, 1-3 per run (oracle: no panic, abort or hang) applied to honest openings of trees of 2..512 leaves over 6 hashers. Rejection relies on collision resistance: a false accept has probability < 2^-96 per run.",
        "level_note": "Extra trailing proof nodes are not generated as 'differing data' (the statement does not require their rejection). The thorough tier repeats the malformed arm in a build with debug assertions and overflow checks.",
        "design_ref": "DESIGN.md 3/C19",
        "rule": "a case = (hasher, leaf count, index set, fault list); distinct = distinct hash of (hasher, log leaves, fault kinds, index-set size or opened index); every case injects at least one fault inside the opening.",
        "assumptions": ["hash functions are collision resistant (probability of a chance accept < 2^-96)"],
        "real_vs_stub": {"real": ["winter-crypto MerkleTree::verify / verify_batch, BatchMerkleProof::get_root / into_openings / read_from"], "stub": ["the link carrying the opening (fault injector)", STUB_ALLOC]},
    },
    "C20": {
        "engine": "engines",
        "configs": ["serial"],
        "level": "exploration",
        "technique": "deterministic simulation of the public coin as a replicated state machine: two replicas and an executable reference model (documented derivation from hasher primitives) fed one tape-drawn history; history fault (one reseed digest substituted on a third replica); refinement checked event by event",
        "level_text": "Seeded exploration over histories of new / reseed / draw<E> (base, quadratic, cubic) / draw_integers / check_leading_zeros for 12 hasher x field combinations. Weakest fit of the claimed properties (the coin is sequential), but it is the state machine that keeps prover and verifier in lockstep, and history refinement against a model is what this family offers.",
        "level_note": "The reference model follows the derivation documented on DefaultRandomCoin (seed = hash(elements); next = hash(seed || ++counter); reseed = hash(old || new), counter reset; draw_integers reseeds with the nonce). draw_integers is only called within its documented precondition 1 <= n < domain.",
        "design_ref": "DESIGN.md 3/C20",
        "rule": "a case = (hasher/field of 12, seed length, history of 2..25 events, fault position); distinct = distinct hash of (hasher/field, seed length, kinds of the first 8 events); all non-trivial.",
        "assumptions": ["inequality after a substituted reseed is checked only on draws with >= 62 bits of entropy (chance equality < 2^-61)"],
        "real_vs_stub": {"real": ["winter-crypto DefaultRandomCoin, hashers"], "stub": ["none (the second replica and the reference coin are harness code)"]},
    },
})

STUB_EXEC = "async executor (tape-chosen poll order, yields inside the prover hooks, cancellation)"
STUB_LINK = "the link carrying the serialised proof (SimLink fault injector)"
REAL_PROTOCOL = ["winter-prover pipeline (trace LDE, constraint evaluation, composition, DEEP, FRI prover, grinding, queries)", "winter-verifier, winter-fri verifier, winter-air (contexts, options, assertions, divisors), winter-crypto (hashers, Merkle, coin), proof (de)serialisation"]
GENAIR = "GenAir (the randomised AIR family, its traces, public inputs and the independent constraint checker) is harness code"

CHECKS.update({
    "C01": {
        "engine": "engines",
        "configs": ["serial", "concurrent"],
        "thorough_extra_configs": ["async"],
        "level": "exploration",
        "technique": "deterministic protocol simulation: prover node -> serialised proof over a fault-free link -> verifier node, both on a recording public coin; prover on the simulated scheduler / executor; oracles: verifier accepts, coin histories are equal replicas; instances from a randomised AIR generator over every field x hash x option combination, and the bundled examples through their public constructors",
        "level_text": "Seeded exploration of (AIR shape, trace, field, hasher, extension, options) x (worker count, schedule). Completeness must hold for every configuration; the generator has a knob and a reach probe for each feature the statement lists (255 queries, width 255, auxiliary segments, periodic columns, long sequence assertions, several composition columns, exemptions, partitions, every batching method, folding factor and remainder degree).",
        "level_note": "Built with debug-assertions off (the shipped profile). Option sets for which FRI folding truncates the degree bound, and traces whose columns are all constant, are generated on purpose and judged under their own keys (known findings). Trace lengths up to 2^13, LDE domains up to 2^18.",
        "design_ref": "DESIGN.md 3/C01",
        "rule": "a case = (GenAir knobs + structure seed, widths, trace length, metadata padding, field/hasher of 12, options: queries, blowup, grinding, extension, folding, remainder degree, batching x2, partitions, hash rate; worker count and schedule); distinct = distinct hash of the configuration class (field/hasher, extension, folding, log remainder, log blowup, log length, aux present, partitions > 1, batching pair, periodic columns, width bucket, query bucket) mixed with the interleaving signature; every case is non-trivial (a complete prove + verify).",
        "assumptions": ["GenAir declares transition degrees exactly and only produces satisfying traces (checked on every run by the independent checker; a disagreement is a harness error)", "verifier policy: the proof's own option set, as the statement says"],
        "real_vs_stub": {"real": REAL_PROTOCOL, "stub": [STUB_RAYON, STUB_EXEC, STUB_ALLOC, GENAIR]},
    },
    "C02": {
        "engine": "engines",
        "configs": ["serial", "concurrent"],
        "level": "fault_enumeration",
        "technique": "deterministic protocol simulation with witness / statement faults injected before commitment (cell flip by step class, asserted-cell flip, row set, column shift, auxiliary cell flip inside build_aux_trace, public-input skew); classification by an independent constraint checker; oracle: not accepted",
        "level_text": "Fault enumeration over a catalogue of 10 fault kinds x step classes on GenAir instances across all configurations. Only faults the independent checker classifies as making the statement false are judged; the others feed the completeness oracle. A chance accept has probability < 2^-40 per run (out-of-domain identity at a point drawn after commitment).",
        "level_note": "Prover pipeline compiled without debug self-checks, as the statement requires. A prover that fails or panics instead of producing a proof counts as 'no proof'.",
        "design_ref": "DESIGN.md 3/C02",
        "rule": "a case = (instance as in C01, one fault with its column / step / class); distinct = hash of (configuration class, fault kind); non-trivial = the independent checker says the faulted statement is false.",
        "assumptions": ["soundness error of one run < 2^-40 for every supported field (degree / |F| at the out-of-domain point)"],
        "real_vs_stub": {"real": REAL_PROTOCOL, "stub": [STUB_RAYON, STUB_ALLOC, GENAIR]},
    },
    "C03": {
        "engine": "engines",
        "configs": ["serial"],
        "level": "fault_enumeration",
        "technique": "deterministic protocol simulation with a Byzantine prover: honest run, transcript replay through public APIs to learn the challenges, then substitution of revealed data after the positions are fixed, plain and adaptive (DEEP-preserving row substitutions solved over the base field, fold-preserving FRI layer substitution, remainder agreeing at every queried point); oracle: verify returns Err",
        "level_text": "Fault enumeration over 9 substitution kinds on honest proofs from GenAir instances biased to shapes in which the adaptive substitutes exist (few queries, large remainders, folding >= 4, several columns). Adaptive substitutes are constructed so that every non-commitment check passes (the DEEP identity is re-checked by harness arithmetic), which leaves the commitment checks as the only defence - the thing the property is about.",
        "level_note": "Rejection relies on collision resistance of the hashers (< 2^-96 chance accept). Fold-preserving substitution is built for FRI layer 0 only.",
        "design_ref": "DESIGN.md 3/C03",
        "rule": "a case = (instance, fault kind, queried row / columns / layer / coset); distinct = hash of (configuration class, fault kind); non-trivial = a substitution was actually applied (the proof differs from the honest one).",
        "assumptions": ["hash functions are collision resistant"],
        "real_vs_stub": {"real": REAL_PROTOCOL, "stub": ["the prover's honesty (Byzantine wrapper built from public APIs)", STUB_ALLOC, GENAIR]},
    },
    "C04": {
        "engine": "engines",
        "configs": ["serial"],
        "level": "fault_enumeration",
        "technique": "deterministic simulation with transport faults on the serialised proof (bit flip, byte set, truncation, extension, lost / duplicated / reordered / zeroed spans, 34 single-field edits from an independent wire model, 9 coordinated multi-site edits) under three verifier policies; oracle: decode error, rejection, or equal parsed contents",
        "level_text": "Fault enumeration: 24 tampered variants per honest proof, 1-3 faults each, swarm-style fault-class mix per run. The harness's own model of the wire format is cross-checked against the library by re-encoding every honest proof. Parsed contents are compared with the library's component parsers, field by field.",
        "level_note": "Crashes on tampered bytes are C05's subject and are only counted here. Violation keys name the first parsed component that differs plus the verifier policy.",
        "design_ref": "DESIGN.md 3/C04",
        "rule": "a case = (instance, fault list, verifier policy); distinct = hash of the configuration class; non-trivial = at least one tampered variant decoded and was accepted or rejected by verify (i.e. reached the verifier).",
        "assumptions": ["equality of parsed contents is judged on the Debug rendering of what the component parsers return"],
        "real_vs_stub": {"real": REAL_PROTOCOL, "stub": [STUB_LINK, STUB_ALLOC, GENAIR]},
    },
    "C05": {
        "engine": "engines",
        "configs": ["serial"],
        "thorough_extra_configs": ["checked"],
        "level": "fault_enumeration",
        "technique": "deterministic simulation with transport faults biased to lengths, counts, tags, exponents and option bytes, honest prefixes plus noise, and random bytes, decoded and verified in isolated worker processes under a poisoning, capped allocator and a watchdog; oracle: no panic, abort, oversized allocation or hang; every panic site is a separate key",
        "level_text": "Fault enumeration over the same fault catalogue as C04 plus unstructured inputs, for whole proofs (verified under OptionSet, MinConjecturedSecurity and MinProvenSecurity policies) and for each component type on its own. Worker processes contain aborts and hangs; the run in flight is attributed and replayed.",
        "level_note": "GenAir::new is total (it derives its shape from whatever TraceInfo the proof carries), so a remaining panic is raised by library code on attacker-chosen values. Single allocation cap 1 GiB. The thorough tier repeats the batch in a build with debug assertions and overflow checks.",
        "design_ref": "DESIGN.md 3/C05",
        "rule": "a case = (instance, fault list or random bytes, verifier policy) or (component type, bytes); distinct = hash of configuration class or component type; non-trivial = the bytes decoded to a proof that reached verify, or were decoded as a component.",
        "assumptions": ["an allocation request above 1 GiB stands for 'the process aborts on an oversized allocation'"],
        "real_vs_stub": {"real": REAL_PROTOCOL, "stub": [STUB_LINK, STUB_ALLOC, GENAIR]},
    },
    "C06": {
        "engine": "engines",
        "configs": ["serial", "concurrent", "async", "concurrent-async"],
        "level": "exploration",
        "technique": "deterministic simulation across four builds of the same prover: serial reference; concurrent build on the tape-driven rayon stand-in (3 (worker count 1..16, schedule) variants per instance, one with only the nonce search pinned to worker 0); async builds on a tape-driven executor (1-4 proofs in flight, yields, one cancellation); digests joined per instance; poisoned allocator",
        "level_text": "Seeded exploration over instances (sizes on both sides of every parallelism threshold, LDE 2^4..2^18) x schedules x builds. Context, commitments and OOD frame bytes must equal the serial build's; whole-proof bytes when the nonce is equal, enforced actively by the pinned-nonce variant, which must reproduce the serial proof bit for bit.",
        "level_note": "The serial batch writes reference digests (target/digests); the other builds read them, so ./check runs serial first. Instances for which the serial build produces no proof (C01's known findings) are skipped. Fragment-filled trace tables are compared in C29's engine, which runs under the same scheduler.",
        "design_ref": "DESIGN.md 3/C06",
        "rule": "a case = (two instances, per build: worker counts, schedules, task sets, cancellation); distinct = hash of the first instance's configuration class mixed with the interleaving / poll-order signature; every case is non-trivial.",
        "assumptions": ["simrayon explores task-atomic serialisations of each parallel region at every simulated worker count; it is a model of rayon, not rayon"],
        "real_vs_stub": {"real": REAL_PROTOCOL, "stub": [STUB_RAYON, STUB_EXEC, STUB_ALLOC, GENAIR]},
    },
    "C07": {
        "engine": "engines",
        "configs": ["serial"],
        "level": "exploration",
        "technique": "deterministic simulation of the codec path for protocol objects: encode into a Vec and into a short-writing simulated stream, decode from a slice and from a tape-chunked stream through ReadAdapter; generated proofs end to end (same verdict for true and false statements), component values through public constructors with enumerated boundary values",
        "level_text": "Seeded exploration. No corruption here (that is C04 / C05 / C26); the nondeterminism under test is how the stream chunks the data and how the writer accepts it.",
        "level_note": "Component values are bounded to protocol-reachable sizes (up to 64 FRI roots). OodFrame and FriProof have no public constructors; they are covered through generated proofs and their default / dummy values.",
        "design_ref": "DESIGN.md 3/C07",
        "rule": "a case = (instance and its proof, stream chunkings) or (component type, constructor arguments); distinct = hash of configuration class or component kind; all non-trivial.",
        "assumptions": ["equality by the types' own PartialEq"],
        "real_vs_stub": {"real": REAL_PROTOCOL, "stub": ["std::io::Write sink and std::io::Read source (SimWriter / SimReader)", STUB_ALLOC, GENAIR]},
    },
    "C08": {
        "engine": "engines",
        "configs": ["serial", "concurrent"],
        "level": "exploration",
        "technique": "deterministic protocol simulation of FRI: FriProver <-> FriVerifier over the crate's channel traits with a recording coin on both ends, fault-free; layer hashing and folding on the simulated scheduler in the concurrent build",
        "level_text": "Seeded exploration over (field, extension, hasher, domain 2^3..2^14, blowup, folding, remainder degree, polynomial degree within the bound, query multiset incl. duplicates / one coset / all distinct / unsorted).",
        "level_note": "Evaluations are produced with the library FFT (C12 checks it). Parameter sets for which folding truncates the degree bound are tagged (known finding).",
        "design_ref": "DESIGN.md 3/C08",
        "rule": "a case = (parameters, polynomial, positions, schedule); distinct = hash of (field/hasher, log domain, folding, blowup, remainder degree, position style); all non-trivial.",
        "assumptions": ["FFT evaluation is correct (C12)"],
        "real_vs_stub": {"real": ["winter-fri prover, verifier, channels, folding, proof (de)serialisation"], "stub": [STUB_RAYON, STUB_ALLOC]},
    },
    "C09": {
        "engine": "engines",
        "configs": ["serial"],
        "level": "fault_enumeration",
        "technique": "deterministic protocol simulation of FRI with a faulty channel / Byzantine prover: 12 fault kinds (high-degree or random function, understated bound, substituted layer value / proof node / commitment, remainder substituted plainly, degree-raising, or adaptively, layers lost / duplicated / reordered); oracle: verify does not return Ok",
        "level_text": "Fault enumeration. Data close to the code is deliberately not generated (the property does not promise its rejection); per-run false-accept probability for the random data classes is < 2^-40.",
        "level_note": "A verifier panic is not acceptance and is only counted (crash-freedom is C05's subject).",
        "design_ref": "DESIGN.md 3/C09",
        "rule": "a case = (parameters, fault kind and place); distinct = hash of (field/hasher, log domain, folding, fault kind); non-trivial = the fault was applied.",
        "assumptions": ["hash functions are collision resistant; fields have >= 62 bits"],
        "real_vs_stub": {"real": ["winter-fri prover, verifier, channels, folding, proof (de)serialisation"], "stub": ["the FRI channel between the two parties (fault injector)", STUB_ALLOC]},
    },
    "C28": {
        "engine": "engines",
        "configs": ["serial", "concurrent"],
        "level": "exploration",
        "technique": "deterministic simulation of the LDE / row-commitment kernels on the rayon stand-in (segments, transposition, row hashing in batches) and in the serial build; oracle: reference model (Horner evaluation at the LDE domain points; the verifier's partitioned row-hash rule)",
        "level_text": "Seeded exploration over (element type, 1..255 columns incl. counts not divisible by 8, polynomial size 8..2^13, blowup, offset, partitions x hash rate, hasher) x (worker count, schedule).",
        "level_note": "Reference complete for <= 2048 cells, 46 sampled cells above. Merkle construction is trusted here (C18).",
        "design_ref": "DESIGN.md 3/C28",
        "rule": "a case = (shape, options, schedule); distinct = hash of (field/hasher, extension, columns, log size, log blowup) mixed with the interleaving signature; all non-trivial.",
        "assumptions": ["field arithmetic exact (C10), Merkle trees correct (C18)"],
        "real_vs_stub": {"real": ["winter-prover RowMatrix, ColMatrix, Segment, StarkDomain; PartitionOptions"], "stub": [STUB_RAYON, STUB_ALLOC]},
    },
    "C29": {
        "engine": "engines",
        "configs": ["serial", "concurrent"],
        "level": "fault_enumeration",
        "technique": "deterministic simulation: Trace::validate called on clean and fault-injected GenAir traces (cell faults by step class, auxiliary cell, asserted cell) and compared with an independent constraint checker; trace tables built by fill / init / fragments (fragments filled in scheduler-chosen order) compared row for row",
        "level_text": "Fault enumeration over step classes (first, interior, before-last-non-exempt, last non-exempt, exempt, last) for main and auxiliary cells.",
        "level_note": "validate signals failure by panicking inside winter-prover; such a panic is the expected 'rejects' outcome.",
        "design_ref": "DESIGN.md 3/C29",
        "rule": "a case = (instance, fault kind, step class); distinct = hash of (configuration class, fault kind, step class); all non-trivial.",
        "assumptions": ["the independent checker and GenAir share the per-column rule functions but not the iteration, periodic-value or assertion-step logic"],
        "real_vs_stub": {"real": ["winter-prover Trace::validate, TraceTable, TraceTableFragment; winter-air assertions, periodic column polynomials"], "stub": [STUB_RAYON, STUB_ALLOC, GENAIR]},
    },
})

PLANNED = "check planned in DESIGN.md but not built yet in this revision"

NOT_APPLICABLE = {
    "C10": "pure function of its arguments (field arithmetic): no schedule, clock, stream, peer or fault in the statement or under the code; random-input testing against a reference would be property testing, not simulation",
    "C11": "pure constants and per-value decoders: nothing to schedule or fault",
    "C13": "pure polynomial arithmetic in math/src/polynom: no parallel, stream or peer code",
    "C15": "pure function of bytes/elements (hash byte layout)",
    "C16": "pure permutation/sponge computation compared with a reference: input enumeration, not simulation",
    "C17": "pure: collision families are input enumeration",
    "C21": "pure case analysis over assertion parameters; exhaustive enumeration of a bounded space is model checking, a different family",
    "C22": "pure algebra; only its last clause (independence from assertion listing order) has a nondeterminism flavour, the other three clauses have no schedule, stream, peer or fault",
    "C23": "pure algebra on divisors, degrees and periodic columns",
    "C24": "injectivity of a pure encoding",
    "C25": "pure arithmetic on option values",
}
for _p in ["C01", "C02", "C03", "C04", "C05", "C06", "C07", "C08", "C09", "C12", "C14", "C18", "C19", "C20", "C26", "C28", "C29"]:
    if _p not in CHECKS:
        NOT_APPLICABLE[_p] = PLANNED

# probes that a quick batch is expected to hit; ./check lists the ones stuck at zero in evidence
_EXPECTED = {
    "C01": ["255_queries", "width_255", "auxiliary_segment", "periodic_columns", "periodic_assertion", "more_than_one_exemption",
            "partitioned_row_hashing", "sequence_assertion_64_or_more_values", "degree_5_or_more", "metadata_65535_bytes",
            "quadratic_extension", "cubic_extension", "prover_ran_under_simulated_scheduler"],
    "C03": ["adaptive_substitutions"],
    "C06": ["other_nonce_than_serial", "prover_ran_under_simulated_scheduler", "proof_completed_with_others_in_flight", "task_cancelled_mid_pipeline"],
    "C09": ["adaptive_remainder_built"],
    "C12": ["size_at_or_above_concurrency_threshold", "ran_under_simulated_scheduler", "degree_deficient_polynomial", "offset_evaluation_with_blowup"],
    "C14": ["batched_path_taken", "length_not_divisible_by_batch_count", "zeros_on_batch_boundaries", "ran_under_simulated_scheduler"],
    "C18": ["parallel_tree_build_with_several_workers", "unsorted_index_list"],
    "C28": ["column_count_not_divisible_by_segment_width", "partitioned_row_hash", "ran_under_simulated_scheduler"],
    "C29": ["three_table_constructions_compared", "checker_says_unsatisfied", "checker_says_satisfied"],
}
for _k, _v in _EXPECTED.items():
    CHECKS[_k]["expected_probes"] = _v
