"""Per-property metadata shared by ./check (evidence) and MANIFEST.json (./check manifest)."""

# build configurations of the simulator binary (see sim/engines/Cargo.toml)
CONFIGS = {
    "serial": {"features": ["with-examples"]},
    "concurrent": {"features": ["concurrent", "with-examples"]},
    "async": {"features": ["async"]},
    "concurrent-async": {"features": ["concurrent", "async"]},
    "checked": {"features": ["with-examples"], "profile": "checked"},
}

REAL_ALL = "all winterfell code under test is the real code compiled from /repo's working tree"

CHECKS = {
    "C27": {
        "engine": "engines",
        "configs": ["serial"],
        "level": "exploration",
        "exhaustive": False,
        "technique": "deterministic simulation: ReadAdapter over a tape-chunked simulated stream, checked op by op against SliceReader as reference model; stream faults (EINTR, I/O error, premature EOF) in a separate configuration; exhaustive small-bound arm",
        "level_text": "Seeded exploration of (content, read-chunking schedule, operation sequence) triples with an executable reference model, plus complete enumeration of all contents <= 6 bytes x all chunkings x all operation sequences <= 3 over a reduced alphabet. The property quantifies over chunking schedules, which only a simulated stream can control; sampling is the right level because the space of schedules x sequences is unbounded.",
        "level_note": "Trusts SliceReader as the model (it is 40 lines of bounds-checked slicing, and C26 checks it separately). After the first error on either side the sequence stops (the trait documents that readers are not rolled back). Under injected stream faults the oracle is deliberately relaxed to: any value returned equals the model's, and no panic.",
        "design_ref": "DESIGN.md 3/C27",
        "rule": "a case = (content bytes, chunking style + per-read chunk lengths from the schedule stream, operation sequence of 1..40 ops, fault draws); distinct = distinct hash of (content length, chunk style, first six operations with their arguments); non-trivial = the simulated stream was read with more than one read() call. The exhaustive-small scenario enumerates its 71040 cases exactly once each.",
        "assumptions": [
            "SliceReader is a correct model of ByteReader semantics",
            "state of a reader after it returned an error is unspecified (documented), so sequences end at the first error",
            "std::io::BufReader behaves as documented (it is real code, not a stub)",
        ],
        "real_vs_stub": {"real": ["winter-utils ReadAdapter, SliceReader, ByteReader provided methods", "std::io::BufReader"], "stub": ["the underlying std::io::Read stream (SimReader: tape-chosen chunking and faults)"]},
    },
    "C26": {
        "engine": "engines",
        "configs": ["serial"],
        "level": "fault_enumeration",
        "technique": "deterministic simulation of the byte-stream path: values -> ByteWriter over a short-writing / failing simulated writer -> simulated storage -> transport faults (torn write at a tape-chosen cut, bit flip, byte set, length-prefix edit, invalid bool, invalid UTF-8) -> SliceReader / Cursor / ReadAdapter over a chunked simulated stream; size-value boundaries enumerated",
        "level_text": "Fault enumeration over the codec path: every primitive and container type the crate serialises (40 concrete instantiations) is written through a writer that accepts tape-chosen prefixes and may fail, stored, damaged by one fault from a fixed catalogue placed inside the encoding, and decoded through three readers. Size-value encodings are enumerated at every 2^k boundary. Faults only count when they land inside the encoding.",
        "level_note": "The branch of read_usize that rejects values not fitting the platform cannot be reached on a 64-bit host (usize::MAX == u64::MAX) and no 32-bit target can run here: reported as not exercised. Write-side hard errors may panic (documented); the oracle then only requires storage to hold a prefix of the reference encoding. Element counts are bounded (<= 300) so honest encodings stay far below the 64 MiB allocation cap.",
        "design_ref": "DESIGN.md 3/C26",
        "rule": "a case = (concrete type out of 40, generated value, writer chunking, reader kind and chunking, one fault kind with its position); distinct = distinct hash of (type, encoding length, fault kind, stream styles); non-trivial = a fault was injected inside the encoding, or the writer/reader needed more than one call.",
        "assumptions": [
            "equality of decoded and original value is judged by the types' own PartialEq",
            "documented length of a size value = vint64: 1 byte per 7 bits up to 56 bits, 9 bytes above",
            "32-bit usize overflow branch not exercised (64-bit host)",
        ],
        "real_vs_stub": {"real": ["winter-utils Serializable/Deserializable impls, ByteWriter/ByteReader provided methods, SliceReader, Cursor impl, ReadAdapter"], "stub": ["std::io::Write sink (SimWriter) and std::io::Read source (SimReader)", "global allocator (poisoning, 64 MiB single-request cap)"]},
    },
}

PLANNED = "check planned in DESIGN.md but not built yet in this revision"

NOT_APPLICABLE = {
    "C10": "pure function of its arguments (field arithmetic): no schedule, clock, stream, peer or fault in the statement or under the code; random-input testing against a reference would be property testing, not simulation",
    "C11": "pure constants and per-value decoders: nothing to schedule or fault",
    "C13": "pure polynomial arithmetic in math/src/polynom: no parallel, stream or peer code",
    "C15": "pure function of bytes/elements (hash byte layout)",
    "C16": "pure permutation/sponge computation compared with a reference: input enumeration, not simulation",
    "C17": "pure: collision families are input enumeration",
    "C21": "pure case analysis over assertion parameters; exhaustive enumeration of a bounded space is model checking, a different family",
    "C22": "pure algebra; only its last clause (independence from assertion listing order) has a nondeterminism flavour, the other three clauses have no schedule, stream, peer or fault",
    "C23": "pure algebra on divisors, degrees and periodic columns",
    "C24": "injectivity of a pure encoding",
    "C25": "pure arithmetic on option values",
}
for _p in ["C01", "C02", "C03", "C04", "C05", "C06", "C07", "C08", "C09", "C12", "C14", "C18", "C19", "C20", "C26", "C28", "C29"]:
    if _p not in CHECKS:
        NOT_APPLICABLE[_p] = PLANNED
