"""Per-property metadata shared by ./check (evidence) and MANIFEST.json (./check manifest)."""

# build configurations of the simulator binary (see sim/engines/Cargo.toml)
CONFIGS = {
    "serial": {"features": ["with-examples"]},
    "concurrent": {"features": ["concurrent", "with-examples"]},
    "async": {"features": ["async"]},
    "concurrent-async": {"features": ["concurrent", "async"]},
    "checked": {"features": ["with-examples"], "profile": "checked"},
}

REAL_ALL = "all winterfell code under test is the real code compiled from /repo's working tree"

CHECKS = {
    "C27": {
        "engine": "engines",
        "configs": ["serial"],
        "level": "exploration",
        "exhaustive": False,
        "technique": "deterministic simulation: ReadAdapter over a tape-chunked simulated stream, checked op by op against SliceReader as reference model; stream faults (EINTR, I/O error, premature EOF) in a separate configuration; exhaustive small-bound arm",
        "level_text": "Seeded exploration of (content, read-chunking schedule, operation sequence) triples with an executable reference model, plus complete enumeration of all contents <= 6 bytes x all chunkings x all operation sequences <= 3 over a reduced alphabet. The property quantifies over chunking schedules, which only a simulated stream can control; sampling is the right level because the space of schedules x sequences is unbounded.",
        "level_note": "Trusts SliceReader as the model (it is 40 lines of bounds-checked slicing, and C26 checks it separately). After the first error on either side the sequence stops (the trait documents that readers are not rolled back). Under injected stream faults the oracle is deliberately relaxed to: any value returned equals the model's, and no panic.",
        "design_ref": "DESIGN.md 3/C27",
        "rule": "a case = (content bytes, chunking style + per-read chunk lengths from the schedule stream, operation sequence of 1..40 ops, fault draws); distinct = distinct hash of (content length, chunk style, first six operations with their arguments); non-trivial = the simulated stream was read with more than one read() call. The exhaustive-small scenario enumerates its 71040 cases exactly once each.",
        "assumptions": [
            "SliceReader is a correct model of ByteReader semantics",
            "state of a reader after it returned an error is unspecified (documented), so sequences end at the first error",
            "std::io::BufReader behaves as documented (it is real code, not a stub)",
        ],
        "real_vs_stub": {"real": ["winter-utils ReadAdapter, SliceReader, ByteReader provided methods", "std::io::BufReader"], "stub": ["the underlying std::io::Read stream (SimReader: tape-chosen chunking and faults)"]},
    },
    "C26": {
        "engine": "engines",
        "configs": ["serial"],
        "level": "fault_enumeration",
        "technique": "deterministic simulation of the byte-stream path: values -> ByteWriter over a short-writing / failing simulated writer -> simulated storage -> transport faults (torn write at a tape-chosen cut, bit flip, byte set, length-prefix edit, invalid bool, invalid UTF-8) -> SliceReader / Cursor / ReadAdapter over a chunked simulated stream; size-value boundaries enumerated",
        "level_text": "Fault enumeration over the codec path: every primitive and container type the crate serialises (40 concrete instantiations) is written through a writer that accepts tape-chosen prefixes and may fail, stored, damaged by one fault from a fixed catalogue placed inside the encoding, and decoded through three readers. Size-value encodings are enumerated at every 2^k boundary. Faults only count when they land inside the encoding.",
        "level_note": "The branch of read_usize that rejects values not fitting the platform cannot be reached on a 64-bit host (usize::MAX == u64::MAX) and no 32-bit target can run here: reported as not exercised. Write-side hard errors may panic (documented); the oracle then only requires storage to hold a prefix of the reference encoding. Element counts are bounded (<= 300) so honest encodings stay far below the 64 MiB allocation cap.",
        "design_ref": "DESIGN.md 3/C26",
        "rule": "a case = (concrete type out of 40, generated value, writer chunking, reader kind and chunking, one fault kind with its position); distinct = distinct hash of (type, encoding length, fault kind, stream styles); non-trivial = a fault was injected inside the encoding, or the writer/reader needed more than one call.",
        "assumptions": [
            "equality of decoded and original value is judged by the types' own PartialEq",
            "documented length of a size value = vint64: 1 byte per 7 bits up to 56 bits, 9 bytes above",
            "32-bit usize overflow branch not exercised (64-bit host)",
        ],
        "real_vs_stub": {"real": ["winter-utils Serializable/Deserializable impls, ByteWriter/ByteReader provided methods, SliceReader, Cursor impl, ReadAdapter"], "stub": ["std::io::Write sink (SimWriter) and std::io::Read source (SimReader)", "global allocator (poisoning, 64 MiB single-request cap)"]},
    },
}

STUB_RAYON = "rayon (replaced by simrayon: simulated worker count 1..16,17,24,32,33,48,64; tape-chosen leaf splitting, task order, interleaving, scope/spawn order)"
STUB_ALLOC = "global allocator (per-run poison fill of fresh blocks so an unwritten uninit_vector slot is visible; single-request cap)"

CHECKS.update({
    "C12": {
        "engine": "engines",
        "configs": ["serial", "concurrent"],
        "level": "exploration",
        "technique": "deterministic simulation of the data-parallel FFT kernels on a tape-driven rayon stand-in (every worker count, task orders, interleavings) plus the serial build; oracle = reference model (Horner evaluation / inverse), poisoned allocator",
        "level_text": "Seeded exploration over (field, extension, size 2..2^16, blowup, offset, degree, operation) x (simulated worker count, schedule). Both builds are compared with naive evaluation, so they are also compared with each other. Thread-count-dependent chunk arithmetic and the three aliasing `unsafe` sites are where a schedule can matter; task-atomic reordering exposes any conflict between two tasks.",
        "level_note": "Trusts field arithmetic (C10 is outside this technique). Reference is complete for n <= 512 and domain <= 4096, 48 sampled points above. Sub-task interleavings of two conflicting tasks are not explored (they cannot create a failure no task order exposes unless the conflict is value-neutral in both orders). simrayon is a model of rayon, not rayon.",
        "design_ref": "DESIGN.md 3/C12, 2.2",
        "rule": "a case = (element type of 8, size, blowup, offset class, true degree, operation of 7, worker count, schedule decisions); distinct = distinct hash of (element type, log size, operation, worker count, interleaving signature of every parallel region); every case is non-trivial (n >= 2).",
        "assumptions": ["field arithmetic is exact (C10, not claimed)", "simrayon explores task-atomic serialisations of each parallel region"],
        "real_vs_stub": {"real": ["winter-math fft (serial and concurrent modules), get_power_series, field arithmetic"], "stub": [STUB_RAYON, STUB_ALLOC]},
    },
    "C14": {
        "engine": "engines",
        "configs": ["serial", "concurrent"],
        "level": "exploration",
        "technique": "deterministic simulation of the batch utilities on the tape-driven rayon stand-in at every worker count, with lengths placed around each batching boundary; oracle = element-wise reference model; poisoned allocator",
        "level_text": "Seeded exploration over (operation, element type, length class, zero placement) x (worker count, schedule). Lengths are drawn relative to 1024 * next_power_of_two(workers), the point where batching switches on, including lengths not divisible by the batch count.",
        "level_note": "Trusts E::inv / mul for single elements. Lengths up to about 5 batches (<= 330k elements at 64 workers).",
        "design_ref": "DESIGN.md 3/C14",
        "rule": "a case = (operation, element type, length, zero style, worker count, schedule); distinct = distinct hash of (operation, element type, length, worker count, interleaving signature); non-trivial = length >= 2.",
        "assumptions": ["single-element field operations are exact (C10, not claimed)"],
        "real_vs_stub": {"real": ["winter-math utils, winter-utils slice helpers and batch_iter_mut!/iter_mut! macros"], "stub": [STUB_RAYON, STUB_ALLOC]},
    },
    "C18": {
        "engine": "engines",
        "configs": ["serial", "concurrent"],
        "level": "exploration",
        "technique": "deterministic simulation of the parallel Merkle build (scope/spawn sub-tree tasks, aliased node buffer) on the rayon stand-in; oracle = recursive-hash reference model for root, every node, single paths; batch openings cross-checked four ways",
        "level_text": "Seeded exploration over (hasher of 6, 2..2^14 leaves, index sets of 1..255 in ascending / descending / shuffled order, sibling-heavy and clustered sets) x (worker count incl. non powers of two, spawn/steal order). The parallel builder hands aliased &mut slices to scope tasks; any overlap shows as a node mismatch under some task order.",
        "level_note": "Rescue-based hashers are limited to 2^12 leaves for cost. Single openings are checked at all indexes up to 64 leaves, 13 sampled indexes above.",
        "design_ref": "DESIGN.md 3/C18",
        "rule": "a case = (hasher, leaf count, worker count, schedule, 1-3 index sets with order style); distinct = distinct hash of (hasher, log leaves, worker count, scope task order, index-set shape); all non-trivial.",
        "assumptions": ["Hasher::merge / hash are deterministic functions (C15/C16, not claimed)"],
        "real_vs_stub": {"real": ["winter-crypto MerkleTree, BatchMerkleProof, concurrent::build_merkle_nodes, hashers"], "stub": [STUB_RAYON, STUB_ALLOC]},
    },
    "C19": {
        "engine": "engines",
        "configs": ["serial"],
        "thorough_extra_configs": ["checked"],
        "level": "fault_enumeration",
        "technique": "deterministic simulation with fault injection on Merkle openings treated as messages: same-shape substitutions (leaf, node, index, duplicate, out-of-range) must be rejected; shape-changing faults and wire damage (bit flip, truncation, count byte, random bytes) must not panic",
        "level_text": "Fault enumeration: a fixed catalogue of 8 substitution faults (oracle: Err) and 12 shape/wire faults, 1-3 per run (oracle: no panic, abort or hang) applied to honest openings of trees of 2..512 leaves over 6 hashers. Rejection relies on collision resistance: a false accept has probability < 2^-96 per run.",
        "level_note": "Extra trailing proof nodes are not generated as 'differing data' (the statement does not require their rejection). The thorough tier repeats the malformed arm in a build with debug assertions and overflow checks.",
        "design_ref": "DESIGN.md 3/C19",
        "rule": "a case = (hasher, leaf count, index set, fault list); distinct = distinct hash of (hasher, log leaves, fault kinds); every case injects at least one fault inside the opening.",
        "assumptions": ["hash functions are collision resistant (probability of a chance accept < 2^-96)"],
        "real_vs_stub": {"real": ["winter-crypto MerkleTree::verify / verify_batch, BatchMerkleProof::get_root / into_openings / read_from"], "stub": ["the link carrying the opening (fault injector)", STUB_ALLOC]},
    },
    "C20": {
        "engine": "engines",
        "configs": ["serial"],
        "level": "exploration",
        "technique": "deterministic simulation of the public coin as a replicated state machine: two replicas and an executable reference model (documented derivation from hasher primitives) fed one tape-drawn history; history fault (one reseed digest substituted on a third replica); refinement checked event by event",
        "level_text": "Seeded exploration over histories of new / reseed / draw<E> (base, quadratic, cubic) / draw_integers / check_leading_zeros for 12 hasher x field combinations. Weakest fit of the claimed properties (the coin is sequential), but it is the state machine that keeps prover and verifier in lockstep, and history refinement against a model is what this family offers.",
        "level_note": "The reference model follows the derivation documented on DefaultRandomCoin (seed = hash(elements); next = hash(seed || ++counter); reseed = hash(old || new), counter reset; draw_integers reseeds with the nonce). draw_integers is only called within its documented precondition 1 <= n < domain.",
        "design_ref": "DESIGN.md 3/C20",
        "rule": "a case = (hasher/field of 12, seed length, history of 2..25 events, fault position); distinct = distinct hash of (hasher/field, seed length) - conservative, histories are not hashed; all non-trivial.",
        "assumptions": ["inequality after a substituted reseed is checked only on draws with >= 62 bits of entropy (chance equality < 2^-61)"],
        "real_vs_stub": {"real": ["winter-crypto DefaultRandomCoin, hashers"], "stub": ["none (the second replica and the reference coin are harness code)"]},
    },
})

PLANNED = "check planned in DESIGN.md but not built yet in this revision"

NOT_APPLICABLE = {
    "C10": "pure function of its arguments (field arithmetic): no schedule, clock, stream, peer or fault in the statement or under the code; random-input testing against a reference would be property testing, not simulation",
    "C11": "pure constants and per-value decoders: nothing to schedule or fault",
    "C13": "pure polynomial arithmetic in math/src/polynom: no parallel, stream or peer code",
    "C15": "pure function of bytes/elements (hash byte layout)",
    "C16": "pure permutation/sponge computation compared with a reference: input enumeration, not simulation",
    "C17": "pure: collision families are input enumeration",
    "C21": "pure case analysis over assertion parameters; exhaustive enumeration of a bounded space is model checking, a different family",
    "C22": "pure algebra; only its last clause (independence from assertion listing order) has a nondeterminism flavour, the other three clauses have no schedule, stream, peer or fault",
    "C23": "pure algebra on divisors, degrees and periodic columns",
    "C24": "injectivity of a pure encoding",
    "C25": "pure arithmetic on option values",
}
for _p in ["C01", "C02", "C03", "C04", "C05", "C06", "C07", "C08", "C09", "C12", "C14", "C18", "C19", "C20", "C26", "C28", "C29"]:
    if _p not in CHECKS:
        NOT_APPLICABLE[_p] = PLANNED
