#!/bin/bash
# Builds the simulator binaries offline from files on disk (and /repo's working tree).
set -e
cd "$(dirname "$0")"
export CARGO_NET_OFFLINE=true
./check build serial concurrent async concurrent-async
echo "setup done"
